"""C03 — compiled fast validators decide exactly like the Python validators."""
import math
import operator

from . import vallib as V

PROPERTY = "C03"
DRIVER = "TraitsVerif/Driver/Val.lean"
PROPS_MODULES = ["TraitsVerif.Props.C03"]
TRANSLATORS = ["validate_tables", "cvalidators", "pyvalidators"]
RULE = ("every trait type of the option grid (%d trait terms: fast classes, Base* classes, float/int Range with "
        "bounds in {None,-1,0,2} x exclude flags, Enum/Map collections, Tuple shapes, Instance/Type/This/Callable "
        "options, String, Prefix*, the legacy Trait*() handlers, some compounds) x the value lattice (%d values); "
        "each pair runs three real paths - CTrait.validate (stand-alone C validator), the same descriptor inside a "
        "one-element (complex, (d,)) descriptor (the duplicated case arm of validate_trait_complex), "
        "handler.validate (Python) - against fastAlone / fastInCompound / pyValidate; plus the descriptor "
        "fast_validate itself against descOf, the Py.Val model against CPython/numpy (kinds p, q) and seeded "
        "random nestings of Either / Tuple / Union / TraitCompound with values chosen for their members; "
        "adaptable objects, their adapters and instances of the target class in three flavours (truthy, __bool__ "
        "returning False, __len__ returning 0) against Instance(adapt='yes'/'default') stand-alone, as Tuple items, "
        "below Either / Union, and (two real paths + oracle only) Supports / AdaptsTo; "
        "(implementation + oracle only) objects that pass isinstance() without being instances by type (metaclass "
        "__instancecheck__, __class__ property) with / without a registered adapter against every adapting trait: "
        "a registered adapter is what gets stored; clones by call T(allow_none=b) of the Instance-like terms against the "
        "trait constructed with allow_none=b; forward-referenced Instance('Name') / TraitInstance('Name', module=) "
        "members of Either / Trait() / TraitCompound in histories across the resolution (grid + random) against the "
        "same definition with the class given directly; "
        "a case is non-trivial when some path accepted, converted or raised; distinct = distinct output line")
TRUSTED = ["Py.Val: hand model of isinstance / == / hash / operator.index / PyFloat_AsDouble / PyComplex_AsCComplex / "
           "int->double rounding on the lattice, validated against CPython + numpy on every run (kinds p, q)",
           "calling a type object on a value (int(v), float(v), str(v), bytes(v), bool(v), …) and re.match are "
           "parameters of the model; their outcome is computed with the plain builtins and sent on the case line",
           "adapt(), user validator functions: parameters, instantiated in the driver by twins of the harness objects"]
ASSUMPTIONS = ["special methods do not raise TraitError themselves and validators are pure functions of the value",
               "no __instancecheck__/__class__ overrides: PyObject_TypeCheck and isinstance coincide on the lattice "
               "of the model (objects with such overrides run on the implementation + oracle only: `#` adapt-order stream)",
               "`aitem != bitem` (identity) in the tuple check is modelled by structural inequality: no validator of the "
               "model returns a new object that is structurally identical to its input",
               "hash and == are consistent on the lattice (dict lookup = first equal key)",
               "Instance(adapt='default') is generated stand-alone and inside Tuple / Union only: as a member of an "
               "Either / TraitCompound the C code returns the enclosing trait's default (finding F49), the model the "
               "member's own"]
EXHAUSTIVE = {"quick": True, "thorough": True}
DISTINCT_BY_OUTPUT = False

CASE_KINDS = (0, 1, 2, 4, 5, 6, 9, 11, 12, 13, 19, 20, 21, 22, 23)
FAMILY = {"CInt": "cast-numeric", "CFloat": "cast-numeric", "CComplex": "cast-numeric",
          "BaseCInt": "cast-numeric", "BaseCFloat": "cast-numeric", "BaseCComplex": "cast-numeric",
          "Enum": "enum", "BaseEnum": "enum", "EnumH": "enum"}


def case_v(tt, v, self_cid=0):
    with V.falsy(V.falsy_mode(tt + "|" + v)):      # bool(v) of a HasTraits value is part of the cast table
        env = V.env_for([V.parse_sexp(tt)], [V.parse_sexp(v)], self_cid)
    return "v|%s|%s|%s" % (env, tt, v)


def corpus():
    return [
        case_v("(RangeF 0 4 0 0)", "(f nan)"),
        case_v("(RangeF 0 4 1 1)", "(nf 32 nan)"),
        case_v("(Either 0 (RangeF 0 4 0 0) Str)", "(flt (ret nan))"),
        case_v("(Tuple Int Int)", "(ts (i 1) (i 2))"),
        case_v("(Callable 0)", "N"),
        case_v("(CoerceH float)", "(i 3)"),
        case_v("(CoerceH float)", "(b 1)"),
        case_v("(Either 0 CInt Float)", "(f inf)"),
        case_v("Int", "(b 1)"),
        case_v("(Either 1 Int Str)", "N"),
        "d|-|(Either 1 Int (Either 0 Float (RangeI 0 5 0 0)) Str)|",
        # adapt='default' inside a compound takes the ENCLOSING trait's default on the C path
        # (default_value_for(trait, …) with trait = the compound): outside the model, see ASSUMPTIONS
        "#" + case_v("(Either 0 CBool (Instance (u 2) 1 2 N))", "(nd 2 (2 2 2))"),
        "#f|-|(Either 0 Int (InstanceF 1))|fastfirst;(i 3);(inst 6 (6) () 11);(i 4);(inst 6 (6) () 11);N;(inst 7 (7 6) () 13);(f 10)",
        "#f|-|(Either 0 Str Int (InstanceF 0))|pyfirst;(inst 6 (6) () 11);N;(inst 6 (6) () 12);NEW;(inst 6 (6) () 11);(i 1)",
    ]


def generate(rng, tier):
    L = V.lattice()
    singles = V.single_traits()
    if tier == "quick":
        ncomp, depth, nq = 2000, 3, 600
    elif tier == "thorough":
        ncomp, depth, nq = 30000, 4, 4000
    else:  # intense
        ncomp, depth, nq = 20000, 4, 0
    for v in L:
        yield "p|-|-|%s" % v
    for _ in range(nq):
        yield "q|-|%s|%s" % (rng.choice(L), rng.choice(L))
    for tt in singles:
        yield "d|-|%s|" % tt
        for v in L:
            yield case_v(tt, v)
    # Supports / AdaptsTo (BaseInstance.validate in the adapting modes + a post_setattr): no term of the Lean
    # driver, the two real paths + oracle only
    for tt in SUPPORTS:
        for v in L + ADAPT_TUPLE_VALUES:
            yield "#v|-|%s|%s" % (tt, v)
    # adaptation inside Tuple items (alone and below Either / Union): truthy and falsy adaptees / adapters
    for tt in ADAPT_TUPLES:
        for v in ADAPT_TUPLE_VALUES:
            yield case_v(tt, v)
    # objects that pass isinstance(value, klass) without being instances by type (metaclass __instancecheck__,
    # __class__ property), with / without an adapter registered from their real type: the order "adaptation first,
    # isinstance second" of the adapting validators becomes observable (implementation + oracle only)
    for tt, wrap in claim_traits():
        for v in CLAIM_VALUES:
            yield "#v|-|%s|%s" % (tt, wrap % v)
    # CLONE BY CALL T(allow_none=b) of every Instance-like term of the grid, allow_none flipped and kept
    for tt in clone_terms(singles):
        for v in CLONE_VALUES:
            yield "#v|-|%s|%s" % (tt, v)
    for tt, wrap in CLONE_NESTED:
        for v in CLONE_VALUES:
            yield "#v|-|%s|%s" % (tt, wrap % v)
    # forward-referenced Instance("Name") / legacy TraitInstance("Name", module=…) alternatives inside compounds:
    # multi-step histories with assignments before and after the class is resolved, either path first (stateful:
    # implementation + oracle only); a small exhaustive grid, then random ones
    for line in forward_grid():
        yield line
    for _ in range(ncomp // 8):
        yield forward_case(rng)
    for _ in range(ncomp):
        tt = V.random_trait(rng, rng.randint(1, depth))
        yield "d|-|%s|" % tt
        for _ in range(3 if tier == "quick" else 4):
            yield case_v(tt, V.random_value_for(rng, tt, L))


SUPPORTS = ["(Supports (u 2) 0)", "(Supports (u 2) 1)", "(AdaptsTo (u 2) 0)", "(AdaptsTo (u 2) 1)",
            "(Tuple (Supports (u 2) 0) Int)", "(Either 0 Str (Supports (u 2) 0))"]
ADAPT_TUPLES = ["(Tuple (Instance (u 2) 0 1 N) Int)", "(Tuple (Instance (u 2) 1 2 N) Int)", "(Tuple (Instance (u 2) 0 0 N) Int)",
                "(Tuple (Either 0 Str (Instance (u 2) 0 1 N)) Int)", "(Tuple (Union (Instance (u 2) 0 2 N) Str) Int)",
                "(Tuple Int (Base (Instance (u 2) 0 1 N)))"]
ADAPT_TUPLE_VALUES = (["(t %s (i 1))" % x for x in V.INST_VALUES] + ["(t (i 1) %s)" % x for x in V.INST_VALUES]
                      + ["(ts %s (i 1))" % x for x in V.INST_FALSY[:3]])
FWD_FAST = ["Int", "Str", "Float", "Bool", "(RangeF 0 8 0 0)", "(Enum (i 1) (s a))"]
FWD_SLOW = ["(RangeI 0 2 0 0)", "(Base Int)", "(String 1 3 N)"]
FWD_VALUES = ["(inst 6 (6) () 11)", "(inst 6 (6) () 12)", "(inst 7 (7 6) () 13)", "N", "(i 3)", "(i 1)", "(f 10)", "(s a)",
              "(b 1)", "(inst 2 (2) () 3)", "(t (i 1))", "(cls 6 (6))"]


FWD_MEMBERS = ["(InstanceF 0)", "(InstanceF 1)", "(InstanceHF 0 0)", "(InstanceHF 1 0)", "(InstanceHF 0 1)", "(InstanceHF 1 1)"]
FWD_FORMS = ["(Either 0 %s)", "(CompoundH %s)", "(TraitK N () %s)"]
FWD_PROBE = {"Int": "(i 3)", "Str": "(s a)", "Float": "(f 10)"}


def forward_case(rng):
    alts = [rng.choice(FWD_FAST) for _ in range(rng.randint(1, 2))]
    if rng.random() < 0.3:
        alts.append(rng.choice(FWD_SLOW))
    member = rng.choice(FWD_MEMBERS)
    alts.insert(rng.randrange(len(alts) + 1), member)
    r = rng.random()
    tt = ("(Either %d %s)" % (1 if r < 0.15 else 0, " ".join(alts)) if r < 0.6 else
          "(CompoundH %s)" % " ".join(alts) if r < 0.8 else "(TraitK N () %s)" % " ".join(alts))
    if rng.random() < 0.1:
        tt = member           # stand-alone, for contrast
    steps = [rng.choice(FWD_VALUES[:4]) if rng.random() < 0.5 else rng.choice(FWD_VALUES) for _ in range(rng.randint(3, 9))]
    if rng.random() < 0.3:
        steps.insert(rng.randrange(1, len(steps) + 1), "NEW")   # a second object of the same class
    return "#f|-|%s|%s;%s" % (tt, rng.choice(["fastfirst", "pyfirst"]), ";".join(steps))


def forward_grid():
    """Every forward-referencing member x one scalar member x position x kind of compound x path order: a value
    of the scalar member before the resolution, the resolving assignment, the same value afterwards, and once
    more on a second, fresh object of the class."""
    for member in FWD_MEMBERS:
        for other, probe in sorted(FWD_PROBE.items()):
            for alts in ((member, other), (other, member)):
                for form in FWD_FORMS:
                    for order in ("fastfirst", "pyfirst"):
                        yield "#f|-|%s|%s;%s;N;(inst 6 (6) () 11);%s;NEW;%s;(inst 7 (7 6) () 13)" % (
                            form % " ".join(alts), order, probe, probe, probe)


def claim_traits():
    """(trait term, value wrapper) of the adapt-order stream: the adapting traits on the two claimed classes
    (cid 60: metaclass __instancecheck__; cid 2: claimed through a __class__ property), stand-alone and inside
    Tuple / Either / Union."""
    out = []
    for c in ("(u 60)", "(u 2)"):
        alone = ["(Instance %s %s %s N)" % (c, an, mode) for an in "01" for mode in "012"]
        alone += ["(Supports %s 0)" % c, "(Supports %s 1)" % c, "(AdaptsTo %s 0)" % c, "(AdaptsTo %s 1)" % c,
                  "(Base (Instance %s 0 1 N))" % c, "(Base (Instance %s 1 2 N))" % c]
        yes, dflt, sup = "(Instance %s 0 1 N)" % c, "(Instance %s 1 2 N)" % c, "(Supports %s 0)" % c
        alone += ["(Either 0 %s Int)" % yes, "(Either 0 Str %s)" % yes, "(Either 1 Str %s)" % sup, "(Union %s Str)" % yes,
                  "(Union Str %s)" % dflt, "(Union Int %s)" % sup, "(CompoundH Int %s)" % yes]
        out += [(t, "%s") for t in alone]
        out += [("(Tuple %s Int)" % yes, "(t %s (i 1))"), ("(Tuple Int %s)" % dflt, "(t (i 1) %s)"),
                ("(Tuple %s Int)" % sup, "(t %s (i 1))"), ("(Tuple (Either 0 Str %s) Int)" % yes, "(t %s (i 1))"),
                ("(Tuple Int (Union %s Str))" % dflt, "(ts (i 1) %s)"), ("(Tuple Int (Base %s))" % yes, "(t (i 1) %s)")]
    return out


CLAIM_VALUES = V.claiming_values() + ["(inst 60 (60) () 60)", "(inst 4 (4) (2) 5)", "(inst 2 (2) () 3)", "(inst 47 (47 4) (2) 24)",
                                      "N", "(i 1)"]
CLONE_VALUES = ["N", "(inst 2 (2) () 3)", "(inst 3 (3 2) () 4)", "(inst 4 (4) (2) 5)", "(inst 0 (0) () 1)", "(i 1)", "(s a)",
                "(inst 22 (22 2) () 26)"]
CLONE_NESTED = [("(Either 0 Int (Clone (Instance (u 2) 1 0 N) 0))", "%s"), ("(Either 0 (Clone (Instance (u 2) 0 0 N) 1) Str)", "%s"),
                ("(Tuple (Clone (Instance (u 2) 1 0 N) 0) Int)", "(t %s (i 1))"),
                ("(Tuple Int (Clone (Instance (u 2) 0 1 N) 1))", "(t (i 1) %s)"),
                ("(Union Str (Clone (Instance (u 2) 1 1 N) 0))", "%s")]


def clone_terms(singles):
    """(Clone T b), b in {0, 1}, for the Instance-like terms T of the grid (Instance / BaseInstance with every
    adapt mode, Supports, AdaptsTo): T(allow_none=b).  (This is no BaseInstance: its clone keeps allow_none as plain metadata.)"""
    out = []
    for tt in list(singles) + SUPPORTS[:4]:
        t = V.parse_sexp(tt)
        if declared_of_clone(["Clone", t, "0"]) is not None:
            out += ["(Clone %s %s)" % (tt, b) for b in "01"]
    return out


def declared_of_clone(t):
    """The term a clone by call is declared to behave like: the same trait constructed with allow_none=b."""
    inner, b = t[1], t[2]
    if not isinstance(inner, list):
        return None
    if inner[0] == "Instance":
        return ["Instance", inner[1], b] + inner[3:]
    if inner[0] in ("Supports", "AdaptsTo"):
        return [inner[0], inner[1], b]
    if inner[0] == "Base" and isinstance(inner[1], list) and inner[1][0] == "Instance":
        return ["Base", declared_of_clone(["Clone", inner[1], b])]
    return None


def direct_twin(t):
    """The forward-referencing term with the class given directly."""
    if isinstance(t, list):
        if t and t[0] == "InstanceF":
            return ["Instance", ["u", "6"], t[1], "0", "N"]
        if t and t[0] == "InstanceHF":
            return ["InstanceH", ["u", "6"], t[1]]
        return [direct_twin(x) for x in t]
    return t


def run_f(tt, hist):
    """History on a class-level trait with a forward reference: every step assigns through the compiled path
    and asks the handler's Python validate; the two must decide alike before and after the class is resolved.
    Independently: every step decides like the same definition with the class given directly (the declared
    meaning of a forward reference), and the validator installed in the class's CTrait stays the one its handler
    declares (resolution may recompute it, not replace it by a member's)."""
    from traits.api import HasTraits
    ctx = V.Ctx()
    tterm = V.parse_sexp(tt)
    steps = hist.split(";")
    order, steps = steps[0], steps[1:]
    import traits.api as T

    def mk(term):
        o = V.build_trait(term, ctx)
        G = type("G", (HasTraits,), {"x": o if isinstance(o, T.TraitType) else T.Trait(o), "__repr__": lambda self: "<G>"})
        return G
    G, G2 = mk(tterm), mk(direct_twin(tterm))
    obj, twin = G(), G2()
    member = "TraitInstance" if "(InstanceHF" in tt else "Instance"
    hits, outs, tags = [], [], {"forward", "order:" + order, "forward-member:" + member,
                                "forward-in:" + (tterm[0] if tterm[0] not in ("InstanceF", "InstanceHF") else "alone")}
    for i, s in enumerate(steps):
        if s == "NEW":
            obj, twin = G(), G2()
            outs.append("new")
            continue
        value = V.build_value(V.parse_sexp(s), ctx)

        def fast():
            setattr(obj, "x", value)
            return obj.__dict__["x"]

        def py():
            return obj.trait("x").handler.validate(obj, "x", value)

        def direct():
            setattr(twin, "x", value)
            return twin.__dict__["x"]
        if order == "fastfirst":
            f, _, _ = V.show_outcome(fast, ctx)
            p, _, _ = V.show_outcome(py, ctx)
        else:
            p, _, _ = V.show_outcome(py, ctx)
            f, _, _ = V.show_outcome(fast, ctx)
        d, _, _ = V.show_outcome(direct, ctx)
        ct = obj.base_trait("x")
        declared = getattr(ct.handler, "fast_validate", None)
        installed = ct.get_validate()
        replaced = declared is not None and installed != declared and hasattr(ct.handler, "set_validate")
        kind = classify(f, p)
        kind_d = classify(f, d)
        outs.append("%s/%s" % (f, p))
        tags.add("fwd-step:" + ("first" if i == 0 else "later"))
        if replaced:
            tags.add("fwd-compound-validator-replaced")
        if kind_d is not None and replaced:
            # ---- oracle: the resolution of a member replaced the validator of the whole compound
            hits.append(_hit("forward-ref-resolution-replaces-compound-validator:%s" % member,
                             "%s, %s, step %d (%s): the compiled path gives %s, the same definition with the class given "
                             "directly gives %s (handler.validate: %s); the validator installed in the class's CTrait is %s, "
                             "its handler (%s) declares %s; history %s" % (
                                 tt, order, i, s, f, d, p, show_installed(installed, ctx), type(ct.handler).__name__,
                                 V.show_desc(declared, ctx), hist)))
            continue
        if kind_d is not None:
            hits.append(_hit("forward-reference-differs-from-direct-class:%s" % kind_d,
                             "%s, %s, step %d (%s): compiled path gives %s, the same definition with the class given "
                             "directly gives %s; history %s" % (tt, order, i, s, f, d, hist)))
        if kind is not None:
            hits.append(_hit("forward-reference:%s" % kind,
                             "%s, %s, step %d (%s): compiled path gives %s, handler.validate gives %s; history %s" % (
                                 tt, order, i, s, f, p, hist)))
    return " ; ".join(outs), hits, tags


def show_installed(v, ctx):
    try:
        return V.show_desc(v, ctx)
    except Exception:
        return "?"


def _hit(sig, what, **kw):
    d = {"signature": sig, "what": what}
    d.update(kw)
    return d


# ------------------------------------------------------------------ real paths

class Paths:
    """The real objects for one trait term."""

    def __init__(self, tterm, ctx):
        from traits.api import TraitType
        self.term = tterm
        o = V.build_trait(tterm, ctx)
        self.ct = V.as_ctrait(o)
        self.h = self.ct.handler
        self.fv = getattr(self.h, "fast_validate", None) if self.h is not None else None
        self.has_py = self.h is not None and getattr(self.h, "validate", None) is not None
        self.is_tt = isinstance(o, TraitType)

    def fast(self, obj, value):
        return self.ct.validate(obj, "x", value)

    def py(self, obj, value):
        return self.h.validate(obj, "x", value)

    def in_compound(self, obj, value):
        from traits.ctrait import CTrait
        from traits.constants import ValidateTrait, DefaultValue
        ct2 = CTrait(0)
        ct2.handler = self.h
        ct2.set_default_value(DefaultValue.constant, None)
        ct2.set_validate((ValidateTrait.complex, (self.fv,)))
        return ct2.validate(obj, "x", value)


_OBJ = {}


def the_object(ctx):
    k = id(ctx.w)
    if k not in _OBJ:
        _OBJ[k] = ctx.classes[0]()
    return _OBJ[k]


def classify(fast, py):
    """None when the two outcomes satisfy the statement, else the kind of difference."""
    if py.startswith("ok "):
        if fast == py:
            return None
        if fast.startswith("ok "):
            return "result-differs"
        return "py-accepts-fast-rejects" if fast == "TraitError" else "py-accepts-fast-raises"
    if py == "TraitError":
        if fast == "TraitError":
            return None
        return "py-rejects-fast-accepts" if fast.startswith("ok ") else "py-traiterror-fast-raises"
    return "py-raises-fast-accepts" if fast.startswith("ok ") else None


def alternatives(t):
    if t[0] == "Either":
        return list(t[2:]) + ([["EnumH", "N"]] if t[1] == "1" else [])
    return list(t[1:])


def blame(tterm, value, ctx, obj, exc_out):
    """The innermost alternative whose own Python validate lets `exc_out` escape
    (or that has no Python validate at all), as a family name."""
    head = tterm[0] if isinstance(tterm, list) else tterm
    if head in ("Either", "CompoundH"):
        # TraitCompound.validate: the handlers with a descriptor first, then the others
        alts = [(a, Paths(a, ctx)) for a in alternatives(tterm)]
        for a, pa in [x for x in alts if x[1].fv is not None] + [x for x in alts if x[1].fv is None]:
            if not pa.has_py:
                return "no-python-validate:" + V.trait_head(a), a
            out, _, _ = V.show_outcome(lambda: pa.py(obj, value), ctx)
            if out == exc_out:
                return blame(a, value, ctx, obj, exc_out)
            if out != "TraitError":
                break
        return None, None
    hd = V.trait_head(tterm)
    return FAMILY.get(hd, "function" if hd.startswith("FunctionH") else hd), tterm


def differential(tterm, value, ctx, obj):
    """Differences between the two real paths, attributed to the innermost trait
    term that shows one on its own; list of (signature, what)."""
    p = Paths(tterm, ctx)
    if p.fv is None or not p.has_py:
        return [], None, None
    fast, fr, _ = V.show_outcome(lambda: p.fast(obj, value), ctx)
    py, pr, pe = V.show_outcome(lambda: p.py(obj, value), ctx)
    kind = classify(fast, py)
    if kind is None:
        return [], fast, py
    subs = []
    head = tterm[0] if isinstance(tterm, list) else tterm
    if head in ("Either", "CompoundH"):
        for a in alternatives(tterm):
            subs += differential(a, value, ctx, obj)[0]
        if not subs and kind == "py-raises-fast-accepts":
            fam, a = blame(tterm, value, ctx, obj, py)
            if fam is not None:
                return [("compound-alternative-raises:%s" % fam,
                         "%s on %s: Python validate of alternative %s raises %s out of the compound, "
                         "the fast path moves on to the next alternative and accepts" % (
                             V.show_sexp(tterm), V.show_value(value, ctx), V.show_sexp(a), py[4:]))], fast, py
    elif head == "Tuple" and isinstance(value, tuple) and len(value) == len(tterm) - 1:
        for a, x in zip(tterm[1:], value):
            subs += differential(a, x, ctx, obj)[0]
    if subs:
        return subs, fast, py
    vterm = V.canon(value, ctx)
    vc = V.value_class(vterm)
    hd = V.trait_head(tterm)
    what = "%s on %s: fast path gives %s, Python validate gives %s" % (V.show_sexp(tterm), V.show_sexp(vterm), fast, py)
    if head == "RangeF" and kind == "py-rejects-fast-accepts" and fast.endswith("nan)"):
        return [("float-range-accepts-nan", what)], fast, py
    if kind == "result-differs":
        same_val = False
        try:
            same_val = bool(fr == pr)
        except Exception:
            pass
        kind = "exact-type-differs" if same_val else "value-differs"
    if head == "Tuple" and vc == "ts" and kind == "exact-type-differs":
        return [("tuple-subclass-exact-type", what)], fast, py
    if head in ("Either", "CompoundH") and "(Instance" in V.show_sexp(tterm) and kind in ("value-differs", "exact-type-differs") \
            and py == "ok N" and fast == "ok " + V.show_value(p.ct.default_value_for(obj, "x"), ctx):
        return [("adapt-default-takes-enclosing-default", what)], fast, py
    if head == "Clone" and value is None and declared_of_clone(tterm) is not None:
        # clone by call: the compiled validator was copied from the original, the Python validate reads the
        # clone's own _allow_none; named only when the compiled path is the one that leaves the declared behaviour
        tw, _, _ = V.show_outcome(lambda: Paths(declared_of_clone(tterm), ctx).fast(obj, value), ctx)
        if fast != tw and py == tw:
            return [("clone-allow-none-stale-fast-validate:%s-None" % ("accepts" if fast.startswith("ok ") else "rejects"),
                     what + "; declared behaviour (%s): %s" % (V.show_sexp(declared_of_clone(tterm)), tw))], fast, py
    if head in ("Instance", "InstanceH") and value is None and kind == "py-rejects-fast-accepts":
        # allow_none=False, but None is an instance of the class (object, NoneType)
        return [("instance-none-is-instance-of-class", what)], fast, py
    am = adapt_mode(tterm)
    if am is not None and vterm[0] == "inst" and int(vterm[1]) in V.CLAIMING and kind == "value-differs" \
            and (fr is value) != (pr is value):
        # one path stores the object itself (it passes isinstance), the other its adapter: the two paths take
        # the isinstance test and the adaptation in different orders
        return [("adapt-order:fast-vs-python:%s:%s" % (am, V.claim_name(int(vterm[1])).split(":")[0]),
                 what + " (the %s path stores the unadapted object)" % ("compiled" if fr is value else "Python"))], fast, py
    if am is not None and vterm[0] == "inst":
        # adaptation took part: name the falsy party (an adapter / adaptee that defines __bool__ or __len__)
        own, adapter = V.inst_flavours(int(vterm[1]))
        got_adapter = any(isinstance(r, ctx.classes[9]) for r in (fr, pr))
        if adapter and got_adapter:
            return [("adapt-falsy-adapter:fast-vs-python:%s" % am, what + " (the adapter object is falsy: %s)" % V.FLAVOURS[adapter])], fast, py
        if own:
            return [("adapt-falsy-adaptee:fast-vs-python:%s" % am, what + " (the assigned object is falsy: %s)" % V.FLAVOURS[own])], fast, py
    if head == "CoerceH":
        # two root causes: isinstance (C) against `type(value) is` (Python), and the
        # CoercableTypes tuples that list the coercible types as as-is types
        cause = "coerce-python-compares-exact-types" if kind == "py-rejects-fast-accepts" else "coerce-fast-skips-conversion"
        return [(cause, what)], fast, py
    return [("%s:%s:%s" % (kind, hd, vc), what)], fast, py


def adapt_mode(tterm):
    """'yes' / 'default' / 'supports' / 'adaptsto' for a trait term whose validation calls adapt(), else None."""
    if isinstance(tterm, list) and tterm[0] == "Base":
        return adapt_mode(tterm[1])
    if isinstance(tterm, list) and tterm[0] == "Instance" and tterm[3] in ("1", "2"):
        return V.ADAPT[int(tterm[3])]
    if isinstance(tterm, list) and tterm[0] in ("Supports", "AdaptsTo"):
        return tterm[0].lower()
    return None


def adapt_target(tterm):
    """cid of the class an adapting trait term adapts to (None for a builtin type)."""
    if isinstance(tterm, list) and tterm[0] == "Base":
        return adapt_target(tterm[1])
    return int(tterm[1][1]) if isinstance(tterm[1], list) else None


SCALAR_ALTS = ("Int", "Str", "Float", "Bool", "Complex", "Bytes", "NoneT")


def adapter_expected(tterm, vterm):
    """Positions of a value at which the statement `an adapter factory is registered from type(value) to the
    class and adapt != "no": what is stored is the adapter, not the value` applies, decided from the DATA of the
    terms alone (the adapts-to list and the mro of the `inst` term): list of (path, mode, trait term, value term)."""
    if not isinstance(tterm, list):
        return []
    am = adapt_mode(tterm)
    if am is not None:
        if isinstance(vterm, list) and vterm[0] == "inst" and adapt_target(tterm) is not None:
            target = str(adapt_target(tterm))
            if target in vterm[3] and target not in vterm[2]:
                return [((), am, tterm, vterm)]
        return []
    h = tterm[0]
    if h in ("Tuple", "BaseTuple") and isinstance(vterm, list) and vterm[0] in ("t", "ts") and len(vterm) == len(tterm):
        return [((i,) + path, am, a, x) for i, (a, v) in enumerate(zip(tterm[1:], vterm[1:]))
                for path, am, a, x in adapter_expected(a, v)]
    if h in ("Either", "Union", "CompoundH") and isinstance(vterm, list) and vterm[0] == "inst":
        alts = tterm[2:] if h == "Either" else tterm[1:]
        adapting = [a for a in alts if a not in SCALAR_ALTS]
        if len(adapting) == 1:          # the other alternatives are scalar types: they reject every `inst` value
            return adapter_expected(adapting[0], vterm)
    return []


def adapt_order_hits(tterm, vterm, results, ctx):
    """Evaluate the statement of adapter_expected on what the real paths returned."""
    hits = []
    for path, am, a, x in adapter_expected(tterm, vterm):
        value = V.build_value(x, ctx)
        klass = ctx.classes[adapt_target(a)]
        cid = int(x[1])
        vc = V.claim_name(cid).split(":")[0] if cid in V.CLAIMING else V.value_class(x)   # flavours: in the tags
        for label, out, r in results:
            ok = out.startswith("ok ")
            if not ok and path:
                continue            # a Tuple as a whole is rejected when ANOTHER item is: nothing is stored
            if ok:
                try:
                    for i in path:
                        r = r[i]
                except Exception:
                    ok = False
            if ok and isinstance(r, ctx.classes[9]) and r.adaptee is value:
                continue
            if ok and r is value and isinstance(value, klass):
                sig = "adapt-order:isinstance-before-adapt:%s:%s" % (am, vc)
                why = ("the value itself is stored: it passes isinstance(value, klass) (type(value) is not a subclass of "
                       "klass) and the isinstance test was taken before adaptation")
            else:
                sig = "adapt-order:adapter-not-stored:%s:%s" % (am, vc)
                why = "the adapter is not stored"
            hits.append(_hit(sig, "%s on %s, %s: an adapter factory is registered from the type of %s to the class of %s "
                                  "and adapt != 'no', so the result%s must be the adapter; got %s: %s" % (
                                      V.show_sexp(tterm), V.show_sexp(vterm), label, V.show_sexp(x), V.show_sexp(a),
                                      "" if not path else " at position %s" % (path,), out, why)))
    return hits


def first_non_traiterror(outs):
    for o in outs:
        if o != "TraitError":
            return o
    return "TraitError"


def run_v(env, tt, v):
    mode = V.falsy_mode(tt + "|" + v)
    with V.falsy(mode):
        out, hits, tags = run_v1(env, tt, v)
    return out, hits, list(tags) + ["owner:" + ("truthy", "bool-false", "len-zero")[mode]]


def run_v1(env, tt, v):
    ctx = V.Ctx()
    obj = the_object(ctx)
    tterm = V.parse_sexp(tt)
    vterm = V.parse_sexp(v)
    value = V.build_value(vterm, ctx)
    p = Paths(tterm, ctx)
    hits, tags = [], set()
    head = tterm[0] if isinstance(tterm, list) else tterm
    tags.add("trait:" + (head if head != "Base" else "Base" + (tterm[1] if isinstance(tterm[1], str) else tterm[1][0])))
    tags.add("value:" + V.value_class(vterm).split(":")[0])
    if "(Instance" in tt or "(Supports" in tt or "(AdaptsTo" in tt:
        for sv in V.sub_values(vterm, []):
            if isinstance(sv, list) and sv[0] == "inst":
                own, adapter = V.inst_flavours(int(sv[1]))
                tags.add("adaptation:object-%s:adapter-%s" % (V.FLAVOURS[own], V.FLAVOURS[adapter] if int(sv[1]) == 4 or int(sv[1]) >= 40 else "none"))
    fast = cmp_ = py = "-"
    fr = cr = pr = None
    if p.fv is not None:
        fast, fr, _ = V.show_outcome(lambda: p.fast(obj, value), ctx)
        k = int(p.fv[0])
        tags.add("kind:%d" % k)
        if k in CASE_KINDS:
            cmp_, cr, _ = V.show_outcome(lambda: p.in_compound(obj, value), ctx)
            # ---- oracle (2): the two C copies of the case agree
            if cmp_ != fast:
                hits.append(_hit("copies-differ:kind%d:%s" % (k, V.value_class(vterm)),
                                 "%s on %s: validate_handlers[%d] gives %s, the same descriptor inside "
                                 "validate_trait_complex gives %s" % (tt, v, k, fast, cmp_)))
    if p.has_py:
        py, pr, _ = V.show_outcome(lambda: p.py(obj, value), ctx)
    for o in (fast, py):
        tags.add("res:" + o.split(" ")[0] + (":" + o.split(" ")[1] if o.startswith("exc") else ""))
    # ---- oracle (1): differential of the two real paths
    for sig, what in differential(tterm, value, ctx, obj)[0]:
        hits.append(_hit(sig, what))
    # ---- oracle (3): compound = first accepting alternative, alone
    if head in ("Either", "CompoundH", "Union"):
        alts = alternatives(tterm) if head != "Union" else [a for a in tterm[1:]]
        fast_alts, slow_alts = [], []
        for a in alts:
            if a == "NoneT":
                out = "ok N" if value is None else "TraitError"
                fast_alts.append(out)
                continue
            pa = Paths(a, ctx)
            out, _, _ = V.show_outcome(lambda: pa.fast(obj, value), ctx)
            (fast_alts if (pa.fv is not None or head == "Union") else slow_alts).append(out)
        expected = first_non_traiterror(fast_alts + slow_alts)
        got, _, _ = V.show_outcome(lambda: p.fast(obj, value), ctx)
        tags.add("compound:" + ("accept" if got.startswith("ok") else "reject"))
        if got != expected and got == "exc TypeError" and any(a == "Any" for a in alts):
            hits.append(_hit("compound-any-member-not-callable",
                             "%s on %s gives %s although the Any member alone accepts: TraitCompound calls the validate "
                             "attribute of Any, which is None" % (tt, v, got)))
        elif got != expected and expected == "ok N" and "(Instance" in tt \
                and got == "ok " + V.show_value(p.ct.default_value_for(obj, "x"), ctx):
            hits.append(_hit("adapt-default-takes-enclosing-default",
                             "%s on %s gives %s (the compound's default), the Instance(adapt='default') member alone gives "
                             "its own default None" % (tt, v, got)))
        elif got != expected:
            hits.append(_hit("compound-not-first-accepting:%s" % head,
                             "%s on %s gives %s; the alternatives alone, in evaluation order, give %s" % (
                                 tt, v, got, fast_alts + slow_alts)))
    # ---- oracle (4): Tuple is element-wise
    if head == "Tuple" and p.fv is not None:
        exp = "TraitError"
        if isinstance(value, tuple) and len(value) == len(tterm) - 1:
            res = []
            exp = None
            for a, x in zip(tterm[1:], value):
                pa = Paths(a, ctx)
                out, r, _ = V.show_outcome(lambda: pa.fast(obj, x), ctx)
                if not out.startswith("ok "):
                    exp = out
                    break
                res.append(r)
            if exp is None:
                if all(r is x for r, x in zip(res, value)):
                    exp = "ok " + V.show_value(value, ctx)
                    if fr is not value:
                        hits.append(_hit("tuple-not-reused", "%s on %s: no element changed but a new object was returned" % (tt, v)))
                else:
                    exp = "ok " + V.show_value(tuple(res), ctx)
        if fast != exp:
            hits.append(_hit("tuple-not-elementwise", "%s on %s gives %s, element-wise validation gives %s" % (tt, v, fast, exp)))
    # ---- oracle (5): adaptation comes first: a registered adapter is what gets stored (every real path)
    if "(inst" in v and ("(Instance" in tt or "(Supports" in tt or "(AdaptsTo" in tt):
        results = [(lab, o, r) for lab, o, r in (("compiled validator alone", fast, fr),
                                                 ("the descriptor inside validate_trait_complex", cmp_, cr),
                                                 ("Python validate", py, pr)) if o != "-"]
        new = adapt_order_hits(tterm, vterm, results, ctx)
        hits += new
        for sv in V.sub_values(vterm, []):
            if isinstance(sv, list) and sv[0] == "inst" and int(sv[1]) in V.CLAIMING:
                tags.add("claims-isinstance:" + V.claim_name(int(sv[1])))
    # ---- oracle (6): a clone by call T(allow_none=b) decides like the trait constructed with allow_none=b
    if head == "Clone":
        decl = declared_of_clone(tterm)
        pd = Paths(decl, ctx)
        tags.add("clone:allow-none-" + ("kept" if V.show_sexp(decl) == V.show_sexp(tterm[1]) else "flipped"))
        for lab, out, which in (("compiled validator", fast, pd.fast if pd.fv is not None else None),
                                ("Python validate", py, pd.py if pd.has_py else None)):
            if out == "-" or which is None:
                continue
            exp, _, _ = V.show_outcome(lambda: which(obj, value), ctx)
            if out == exp:
                continue
            if value is None and lab == "compiled validator":
                sig = "clone-allow-none-stale-fast-validate:%s-None" % ("accepts" if out.startswith("ok ") else "rejects")
            else:
                sig = "clone-differs-from-declared:%s:%s" % (lab.split(" ")[0].lower(), V.value_class(vterm))
            hits.append(_hit(sig, "%s on %s: the %s of the clone gives %s, the trait it is declared to equal (%s) gives %s; "
                                  "fast_validate of the clone's handler is %s, its _allow_none is %r" % (
                                      tt, v, lab, out, V.show_sexp(decl), exp, V.show_desc(p.fv, ctx),
                                      getattr(p.h, "_allow_none", None))))
    return "fast=%s cmp=%s py=%s" % (fast, cmp_, py), hits, tags


def run_d(tt):
    ctx = V.Ctx()
    p = Paths(V.parse_sexp(tt), ctx)
    return V.show_desc(p.fv, ctx), [], ["desc"]


TYS = ["str", "int", "float", "complex", "bool", "bytes", "list", "tuple", "dict", "function", "method", "type",
       "NoneType", "module", "npbool"]


def run_p(v):
    ctx = V.Ctx()
    x = V.build_value(V.parse_sexp(v), ctx)

    def out(f, show):
        import warnings
        try:
            with warnings.catch_warnings():
                warnings.simplefilter("ignore")
                return show(f())
        except BaseException as e:  # noqa: B902
            return "exc " + V.exc_name(e)

    def cpx():
        if isinstance(x, (str, bytes)):
            raise TypeError
        return complex(x)
    tys = [ctx.w.types[t] for t in TYS] + [ctx.classes[i] for i in range(5)]
    inst = "".join("1" if isinstance(x, t) else "0" for t in tys)
    exact = "".join("1" if type(x) is t else "0" for t in tys)
    try:
        hash(x)
        hs = 1
    except TypeError:
        hs = 0
    return ("idx=%s flt=%s cpx=%s hash=%d call=%d inst=%s exact=%s" % (
        out(lambda: operator.index(x), str), out(lambda: math.ldexp(x, 0), V.show_f),
        out(cpx, lambda z: V.show_f(z.real) + "," + V.show_f(z.imag)), hs, 1 if callable(x) else 0, inst, exact),
        [], ["pymodel"])


def run_q(a, b):
    ctx = V.Ctx()
    x = V.build_value(V.parse_sexp(a), ctx)
    y = V.build_value(V.parse_sexp(b), ctx)
    import warnings
    try:
        with warnings.catch_warnings():
            warnings.simplefilter("ignore")
            r = "yes" if bool(x == y) else "no"
    except BaseException as e:  # noqa: B902
        r = "raises " + V.exc_name(e)
    return r, [], ["pyeq"]


def run_impl(case):
    kind, env, a, b = case.lstrip("#").split("|")
    if kind == "v":
        return run_v(env, a, b)
    if kind == "d":
        return run_d(a)
    if kind == "p":
        return run_p(b)
    if kind == "q":
        return run_q(a, b)
    if kind == "f":
        return run_f(a, b)
    raise AssertionError(case)


def nontrivial(case, out):
    return case.lstrip("#")[0] in "vpqf" and ("ok " in out or "exc " in out or "=" in out or out in ("yes", "no"))


def shrink(case, fails):
    """Values and traits are already atomic; try the lattice value alone for tuple values."""
    return case
