"""Shared pieces of the `dsl` cluster (C15): line protocol, canonical form of the
real graphs, the ORACLE's independent denotation (hand-rolled tokenizer +
recursive descent written from the user manual, notification.rst "Traits Mini
Language"), generators."""
import itertools
import re

WS_CHARS = " \t\n\r\x0c"
ALPHABET = ["a", "b", "items", "+m", "*", ".", ":", ",", "[", "]", " "]


# --------------------------------------------------------------------------
# line protocol
# --------------------------------------------------------------------------

def esc(s):
    out = []
    for ch in s:
        o = ord(ch)
        if 33 <= o <= 126 and ch != "\\":
            out.append(ch)
        else:
            out.append("\\%x;" % o)
    return "".join(out)


def unesc(s):
    return re.sub(r"\\([0-9a-fA-F]+);", lambda m: chr(int(m.group(1), 16)), s)


_W = re.compile(r"\w")


def uw_field(*texts):
    """The part of Python's `\\w` table the model cannot compute: the non-ASCII
    characters of the case that `\\w` matches."""
    cps = sorted({ord(ch) for t in texts for ch in t if ord(ch) >= 128 and _W.fullmatch(ch)})
    return ",".join(str(c) for c in cps) if cps else "-"


def case_c(text):
    return "c =%s %s" % (esc(text), uw_field(text))


def case_t(text):
    return "t =%s %s" % (esc(text), uw_field(text))


def case_eq(t1, t2, rel):
    return "eq =%s =%s %s %s" % (esc(t1), esc(t2), uw_field(t1, t2), rel)


def case_m(text, spec):
    return "m =%s %s %s" % (esc(text), uw_field(text), spec)


def case_l(items):
    """items: list of (kind, text), kind '=' (text) or '~' (ObserverExpression parse(text))."""
    return "l %s %s" % (uw_field(*[t for _, t in items]), " ".join(k + esc(t) for k, t in items))


META_VALUES = {"T": True, "1": 1, "x": "x", "F": False, "0": 0, "E": "", "N": None}   # "A" = absent


def parse_case(case):
    w = case.split()
    if w[0] == "c":
        return "c", unesc(w[1][1:]), None, None
    if w[0] == "t":
        return "t", unesc(w[1][1:]), None, None
    if w[0] == "l":
        return "l", [(x[0], unesc(x[1:])) for x in w[2:]], None, None
    if w[0] == "m":
        return "m", unesc(w[1][1:]), w[3], None
    return "eq", unesc(w[1][1:]), unesc(w[2][1:]), (w[4] if len(w) > 4 else "none")


# --------------------------------------------------------------------------
# canonical form of the REAL graphs
# --------------------------------------------------------------------------

def b01(b):
    return "1" if b else "0"


def show_observer(o):
    from traits.observation._anytrait_filter import anytrait_filter
    from traits.observation._metadata_filter import MetadataFilter
    n = type(o).__name__
    if n == "NamedTraitObserver":
        return "T:%s:%s:%s" % (esc(o.name), b01(o.notify), b01(o.optional))
    if n == "ListItemObserver":
        return "L:%s:%s" % (b01(o.notify), b01(o.optional))
    if n == "DictItemObserver":
        return "D:%s:%s" % (b01(o.notify), b01(o.optional))
    if n == "SetItemObserver":
        return "S:%s:%s" % (b01(o.notify), b01(o.optional))
    if n == "FilteredTraitObserver":
        if o.filter is anytrait_filter:
            return "A:%s" % b01(o.notify)
        if type(o.filter) is MetadataFilter:
            return "M:%s:%s" % (esc(o.filter.metadata_name), b01(o.notify))
    return "?:" + n


def graph_paths(g):
    here = show_observer(g.node)
    if not g.children:
        return [here]
    return [here + ">" + p for c in g.children for p in graph_paths(c)]


def show_graphs(graphs):
    return "|".join(sorted(p for g in graphs for p in graph_paths(g)))


def exc_name(e):
    for c in type(e).__mro__:
        if c.__name__ == "ValueError":
            return "ValueError"
    return "Other"


# --------------------------------------------------------------------------
# ORACLE: the documented language and its meaning, independent of traits
# --------------------------------------------------------------------------

class NotInLanguage(Exception):
    pass


def tokenize(text):
    """names [A-Za-z_]\\w*, the seven punctuation marks, blanks skipped."""
    toks, i, n = [], 0, len(text)
    while i < n:
        ch = text[i]
        if ch in WS_CHARS:
            i += 1
        elif ch in "+*.:,[]":
            toks.append(ch)
            i += 1
        elif ch == "_" or ("a" <= ch <= "z") or ("A" <= ch <= "Z"):
            j = i + 1
            while j < n and _W.fullmatch(text[j]):
                j += 1
            toks.append(("name", text[i:j]))
            i = j
        else:
            raise NotInLanguage("character %r" % ch)
    return toks


def tree_of(text):
    """Hand-rolled recursive descent over `tokenize`:
    ('leaf', atom) | ('grp', t) | ('ser', l, conn, r) | ('par', l, r);
    atom = ('T', name) | ('items',) | ('M', name) | ('*',)."""
    toks = tokenize(text)
    pos = [0]

    def peek():
        return toks[pos[0]] if pos[0] < len(toks) else None

    def take():
        x = peek()
        pos[0] += 1
        return x

    def par():
        t = ser()
        while peek() == ",":
            take()
            t = ("par", t, ser())
        return t

    def ser():
        t = el()
        while peek() in (".", ":"):
            c = take()
            t = ("ser", t, c, el())
        return t

    def el():
        x = take()
        if isinstance(x, tuple):
            return ("leaf", ("items",) if x[1] == "items" else ("T", x[1]))
        if x == "+":
            y = take()
            if not isinstance(y, tuple):
                raise NotInLanguage("+ without a name")
            return ("leaf", ("M", y[1]))
        if x == "*":
            return ("leaf", ("*",))
        if x == "[":
            t = par()
            if take() != "]":
                raise NotInLanguage("expected ]")
            return ("grp", t)
        raise NotInLanguage("unexpected %r" % (x,))

    t = par()
    if pos[0] != len(toks):
        raise NotInLanguage("trailing input")
    return t


def words(t, terminal, follow, inb, info):
    """The words of an expression: lists of (atom, following connector or None).
    `terminal` = the sub-expression is not followed, directly or indirectly, by a
    connector; `*` is only allowed there (manual: '"*", "name.*" and "[a.*, b.c]"
    are all permitted, but "*.name" and "[a, *].name" are not').  `follow` = the
    connector that follows the sub-expression, through any brackets."""
    k = t[0]
    if k == "leaf":
        a = t[1]
        if a[0] == "items":
            return [[(("T", "items", True), follow)], [(("D",), follow)],
                    [(("L",), follow)], [(("S",), follow)]]
        if a[0] == "T":
            return [[(("T", a[1], False), follow)]]
        if a[0] == "M":
            return [[(("M", a[1]), follow)]]
        if not terminal:
            raise NotInLanguage("* in a non-terminal position")
        if inb:
            info["star_in_brackets"] = True
        return [[(("A",), follow)]]
    if k == "grp":
        return words(t[1], terminal, follow, True, info)
    if k == "par":
        return words(t[1], terminal, follow, inb, info) + words(t[2], terminal, follow, inb, info)
    left = words(t[1], False, t[2], inb, info)
    right = words(t[3], terminal, follow, inb, info)
    return [w + v for w in left for v in right]


def show_step(atom, follow):
    nf = b01(follow is None or follow == ".")
    if atom[0] == "T":
        return "T:%s:%s:%s" % (esc(atom[1]), nf, b01(atom[2]))
    if atom[0] in "LDS":
        return "%s:%s:1" % (atom[0], nf)
    if atom[0] == "M":
        return "M:%s:%s" % (esc(atom[1]), nf)
    return "A:%s" % nf


def branches(t, last_notifies, cont):
    """Observation trees as hashable (step, frozenset(children)); `cont` = the trees
    hanging below.  Returns (trees, dup): dup = some step got two equal children."""
    k = t[0]
    if k == "leaf":
        dup = len(set(cont)) != len(cont)
        a = t[1]
        if a[0] == "items":
            return [((x, last_notifies), frozenset(cont)) for x in ("T?items", "D", "L", "S")], dup
        return [((a, last_notifies), frozenset(cont))], dup
    if k == "grp":
        return branches(t[1], last_notifies, cont)
    if k == "par":
        a, d1 = branches(t[1], last_notifies, cont)
        b, d2 = branches(t[2], last_notifies, cont)
        return a + b, d1 or d2
    r, d1 = branches(t[3], last_notifies, cont)
    l, d2 = branches(t[1], t[2] == ".", r)
    return l, d1 or d2


def lark_shape(t, terminal=True):
    """The Lark tree the grammar file prescribes for a `tree_of` tree, written as the driver
    writes it: rule(child,...), connectors notify()/quiet(), NAME tokens escaped; brackets inlined."""
    k = t[0]
    if k == "leaf":
        a = t[1]
        return {"T": lambda: "trait(%s)" % esc(a[1]), "items": lambda: "items()",
                "M": lambda: "metadata(%s)" % esc(a[1]), "*": lambda: "anytrait()"}[a[0]]()
    if k == "grp":
        return lark_shape(t[1], False)
    if k == "par":
        return "%s(%s,%s)" % ("parallel_terminal" if terminal else "parallel",
                              lark_shape(t[1], terminal), lark_shape(t[2], terminal))
    return "%s(%s,%s(),%s)" % ("series_terminal" if terminal else "series", lark_shape(t[1], False),
                               "notify" if t[2] == "." else "quiet", lark_shape(t[3], terminal))


def denote(text):
    """-> (sorted path strings, info) or raises NotInLanguage."""
    t = tree_of(text)
    info = {"star_in_brackets": False}
    ws = words(t, True, None, False, info)
    info["dup"] = branches(t, True, [])[1]
    return sorted(">".join(show_step(a, f) for a, f in w) for w in ws), info


# --------------------------------------------------------------------------
# generators
# --------------------------------------------------------------------------

def exhaustive(max_len, alphabet=ALPHABET):
    for n in range(0, max_len + 1):
        for tup in itertools.product(alphabet, repeat=n):
            yield "".join(tup)


NAMES = ["a", "b", "c", "x1", "_y", "name", "itemsx", "items_", "Items", "i", "a_b9"]
UNI_NAMES = ["café", "a٣", "xµ", "éa", "a²", "ño", "aⅠ"]


def gen_tree(rng, depth, terminal, level="par", uni=False):
    """Random derivation tree, as nested tuples:
    ('t', name) ('items',) ('m', name) ('any',) ('grp', p) ('ser', l, c, r) ('par', l, r)."""
    if level == "par":
        if depth > 0 and rng.random() < 0.35:
            return ("par", gen_tree(rng, depth - 1, terminal, "par", uni),
                    gen_tree(rng, depth - 1, terminal, "ser", uni))
        return gen_tree(rng, depth, terminal, "ser", uni)
    if level == "ser":
        if depth > 0 and rng.random() < 0.5:
            return ("ser", gen_tree(rng, depth - 1, False, "ser", uni), rng.choice(".:"),
                    gen_tree(rng, depth - 1, terminal, "elem", uni))
        return gen_tree(rng, depth, terminal, "elem", uni)
    # element (or anytrait when terminal)
    r = rng.random()
    if terminal and r < 0.12:
        return ("any",)
    if depth > 0 and r < 0.40:
        return ("grp", gen_tree(rng, depth - 1, False, "par", uni))
    if r < 0.55:
        return ("items",)
    names = NAMES + (UNI_NAMES if uni else [])
    if r < 0.70:
        return ("m", rng.choice(names + ["items"]))
    return ("t", rng.choice(names))


def count_paths(t):
    k = t[0]
    if k == "items":
        return 4
    if k in ("t", "m", "any"):
        return 1
    if k == "grp":
        return count_paths(t[1])
    if k == "ser":
        return count_paths(t[1]) * count_paths(t[3])
    return count_paths(t[1]) + count_paths(t[2])


def tree_tokens(t):
    k = t[0]
    if k == "t":
        return [t[1]]
    if k == "items":
        return ["items"]
    if k == "m":
        return ["+", t[1]]
    if k == "any":
        return ["*"]
    if k == "grp":
        return ["["] + tree_tokens(t[1]) + ["]"]
    if k == "ser":
        return tree_tokens(t[1]) + [t[2]] + tree_tokens(t[3])
    return tree_tokens(t[1]) + [","] + tree_tokens(t[2])


def add_brackets(rng, t, p=0.15):
    """Redundant brackets: wrap sub-derivations that are not `*`-bearing in a group
    (a group is an element, so it can stand wherever its content could, except
    that content containing `*` may not be bracketed in the grammar of the code)."""
    k = t[0]
    if k in ("t", "items", "m", "any"):
        out = t
    elif k == "grp":
        out = ("grp", add_brackets(rng, t[1], p))
    elif k == "ser":
        out = ("ser", add_brackets(rng, t[1], p), t[2], add_brackets(rng, t[3], p))
    else:
        out = ("par", add_brackets(rng, t[1], p), add_brackets(rng, t[2], p))
    if not has_any(out) and rng.random() < p:
        out = ("grp", out)
    return out


def has_any(t):
    return t[0] == "any" or any(isinstance(x, tuple) and has_any(x) for x in t[1:])


def decorate(rng, toks, p=0.3):
    out = []
    for tk in [None] + toks:
        if tk is not None:
            out.append(tk)
        if rng.random() < p:
            out.append("".join(rng.choice(WS_CHARS) for _ in range(rng.randint(1, 3))))
    return "".join(out)


def reassociate(rng, t):
    """Same token string up to brackets: rotate a series / parallel node and
    bracket the new right operand."""
    k = t[0]
    if k == "ser" and t[1][0] == "ser" and rng.random() < 0.7:
        (_, a, c1, b), c2, c = t[1], t[2], t[3]
        if not has_any(c):
            return ("ser", a, c1, ("grp", ("ser", b, c2, c)))
    if k == "par" and t[1][0] == "par" and rng.random() < 0.7:
        (_, a, b), c = t[1], t[2]
        if not has_any(c) and not has_any(b):
            return ("par", a, ("grp", ("par", b, c)))
    if k == "grp":
        return ("grp", reassociate(rng, t[1]))
    if k == "ser":
        return ("ser", reassociate(rng, t[1]), t[2], reassociate(rng, t[3]))
    if k == "par":
        return ("par", reassociate(rng, t[1]), reassociate(rng, t[2]))
    return t


def swap_parallel(rng, t):
    k = t[0]
    if k == "par" and rng.random() < 0.7 and t[1][0] != "par":
        return ("par", t[2], t[1])
    if k == "grp":
        return ("grp", swap_parallel(rng, t[1]))
    if k == "ser":
        return ("ser", swap_parallel(rng, t[1]), t[2], swap_parallel(rng, t[3]))
    if k == "par":
        return ("par", swap_parallel(rng, t[1]), swap_parallel(rng, t[2]))
    return t


def perturb(rng, t):
    """A different expression of the same shape (negative control for `eq`)."""
    k = t[0]
    if k == "t":
        return ("t", t[1] + "q")
    if k == "m":
        return ("m", t[1] + "q")
    if k == "items":
        return ("t", "itemz")
    if k == "any":
        return ("any",)
    if k == "grp":
        return ("grp", perturb(rng, t[1]))
    if k == "ser":
        if rng.random() < 0.5:
            return ("ser", t[1], ":" if t[2] == "." else ".", t[3])
        return ("ser", perturb(rng, t[1]), t[2], t[3]) if rng.random() < 0.5 else ("ser", t[1], t[2], perturb(rng, t[3]))
    return ("par", perturb(rng, t[1]), t[2]) if rng.random() < 0.5 else ("par", t[1], perturb(rng, t[2]))


FUZZ_CHARS = list("ab.:,[]+* \t") + ["items", "1", "_", "-", "(", "{", "\x0b", "\x1f", "\xa0", " ",
                                      "é", "٣", "ａ", "\\", "\"", "'", "\n", "\x0c", "\x00"]


def mutate(rng, s):
    for _ in range(rng.randint(1, 2)):
        op = rng.randrange(4)
        i = rng.randrange(len(s) + 1)
        if op == 0 and s:
            i = min(i, len(s) - 1)
            s = s[:i] + s[i + 1:]
        elif op == 1:
            s = s[:i] + rng.choice(FUZZ_CHARS) + s[i:]
        elif op == 2 and s:
            i = min(i, len(s) - 1)
            s = s[:i] + rng.choice(FUZZ_CHARS) + s[i + 1:]
        elif len(s) >= 2:
            i = min(i, len(s) - 2)
            s = s[:i] + s[i + 1] + s[i] + s[i + 2:]
    return s
