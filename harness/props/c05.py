"""C05 — TraitList refines list; change events are faithful normalised deltas."""
import copy

from . import seqlib as S

PROPERTY = "C05"
DRIVER = "TraitsVerif/Driver/Seq.lean"
PROPS_MODULES = ["TraitsVerif.Props.C05"]
TRANSLATORS = ["mutators", "pyl", "ctorcopy", "ctorprog"]
RULE = ("exhaustive single operations (every mutator x every int index / slice bound in -5..5|None x step in "
        "None,+-1,+-2,+-3 x replacement lengths 0..len+1) on lists of length 0..3 (quick) / wider (thorough), "
        "the same stream against the builtin list (validates the Py.List model), plus seeded random histories "
        "of 1-12 operations with identity / coercing / rejecting / k-th-call-fails validators; a case is "
        "non-trivial when it produced an observation (state change, event or exception), distinct = distinct "
        "canonical output line")
TRUSTED = ["Py.List / Py.Slice: hand model of CPython list and slice.indices, validated against the builtin "
           "list on the same exhaustive stream (kind `pl`)",
           "list.sort is a parameter of the model (any function); the driver instantiates it with a merge sort on ints"]
ASSUMPTIONS = ["indices are Python ints (objects with only __index__ are outside the model)",
               "items are ints with structural ==; identity-vs-equality of items is not exercised here"]
EXHAUSTIVE = {"quick": False, "thorough": False}


def corpus():
    return [
        "tl|id|[1,2,3,4,5]|ss 4 0 -2 [8,9];ds N N -2;im 0;in -9 7;po 5;rm 7;so",
        "tl|id|[4,1,5,3,2,0,7]|sk 2 1;sk 1 1;sk 1 0;sk 3 1;sk 0 1",
        "tl|id|[1,2,3,4,5,6,7]|ds 5 0 -2;ss N N -3 [1,2];ds 0 4 3",
        "tl|id|[1,2,3]|ss 5 2 N [9];ss N N -1 [1,2,3,4];di -3;ss 2 1 1 []",
        "tl|mod7|[9,8]|ss N N 2 [15];si -1 20;ap 7",
        "tl|rejneg|[1]|si 5 -1;ss 0 0 0 [1];ex [1,-1];in 0 -1",
        "tl|failk:1:ValueError|[]|ex [1,2,3];ia [1];ss N N N [4,5]",
        "pl|id|[1,2,3]|ss 5 2 N [9];ss N N -1 [1,2,3,4];di -3;ds -1 -5 -2",
    ]


def generate(rng, tier):
    if tier == "quick":
        yield from S.exhaustive_single_ops(3, S.IDX_SMALL, S.STEPS_SMALL, "tl")
        yield from S.exhaustive_single_ops(3, S.IDX_SMALL, S.STEPS_SMALL, "pl")
        nh = 2000
    elif tier == "thorough":
        idx = [None] + list(range(-8, 9))
        steps = [None, 1, -1, 2, -2, 3, -3, 4, -4]
        yield from S.exhaustive_single_ops(6, idx, steps, "tl")
        yield from S.exhaustive_single_ops(6, idx, steps, "pl")
        nh = 100000
    else:  # intense: failing-input search after a broken proof / correspondence
        idx = [None] + list(range(-6, 7))
        yield from S.exhaustive_single_ops(4, idx, S.STEPS_SMALL + [4, -4], "tl")
        nh = 20000
    for _ in range(nh):
        yield S.random_history(rng, "tl")
    for _ in range(nh // 4):
        yield S.random_history(rng, "pl", validators=["id"])
    yield from malformed_cases(rng, nh // 2)
    yield from nonreflexive_histories(rng, nh // 4, "tl")
    yield from nonreflexive_histories(rng, nh // 16, "pl")


# ---------------------------------------------------------------------------
# non-reflexive items (model-compared): the item codes 900..909 stand for ten fixed OBJECTS that do not
# compare equal to themselves (five distinct float NaNs, five instances of a class whose __eq__ returns
# False).  The builtin list looks items up identity-first (`x is y or x == y`), so on such objects
# `remove(x)` finds exactly the positions holding the very object x — which is plain integer equality on
# the codes, i.e. what Model/Py/List does with `eqv` = equality of the codes the driver sees.
# ---------------------------------------------------------------------------

NR_BASE = 900
_POOL = []


def _pool():
    if not _POOL:
        class NeverEqual:
            __slots__ = ()

            def __eq__(self, other):
                return False

            def __ne__(self, other):
                return True
            __hash__ = object.__hash__

        class RaisingEq:
            __slots__ = ()

            def __eq__(self, other):
                raise RuntimeError("== is not defined")
            __hash__ = object.__hash__

        class AlwaysEqual:
            __slots__ = ()

            def __eq__(self, other):
                return True
            __hash__ = object.__hash__
        _POOL.extend([float("nan") for _ in range(5)] + [NeverEqual() for _ in range(5)]
                     + [RaisingEq() for _ in range(3)] + [AlwaysEqual() for _ in range(2)])
    return _POOL


def _obj(x):
    if type(x) is int and NR_BASE <= x < NR_BASE + len(_pool()):
        return _pool()[x - NR_BASE]
    return x


def _code(x):
    for i, o in enumerate(_pool()):
        if x is o:
            return NR_BASE + i
    return x


def _codes(l):
    return [_code(x) for x in l]


def _plain(v):
    """hit details without live pool objects (they go into JSON replay files)"""
    if isinstance(v, (list, tuple)):
        return [_plain(x) for x in v]
    if isinstance(v, dict):
        return {k: _plain(x) for k, x in v.items()}
    return _code(v)


def _objectify_op(op):
    k = op[0]
    if k in ("si", "in"):
        return (k, op[1], _obj(op[2]))
    if k in ("ap", "rm"):
        return (k, _obj(op[1]))
    if k in ("ss", "ex", "ia"):
        it = op[-1]
        for i in range(len(it)):
            it[i] = _obj(it[i])
    return op


def nonreflexive_histories(rng, n, kind):
    for _ in range(n):
        codes = [NR_BASE + i for i in range(10)]

        def item():
            return rng.choice(codes) if rng.random() < 0.6 else rng.choice([0, 1, 2, 3])
        init = [item() for _ in range(rng.randint(0, 5))]
        present = list(init)
        ops = []
        for _ in range(rng.randint(1, 8)):
            r = rng.random()
            if r < 0.4:
                ops.append("rm %d" % (rng.choice(present) if present and rng.random() < 0.75 else item()))
            elif r < 0.5:
                x = item()
                present.append(x)
                ops.append("ap %d" % x)
            elif r < 0.6:
                x = item()
                present.append(x)
                ops.append("in %d %d" % (rng.randint(-2, 4), x))
            elif r < 0.7:
                x = item()
                present.append(x)
                ops.append("si %d %d" % (rng.randint(-3, 3), x))
            elif r < 0.8:
                xs = [item() for _ in range(rng.randint(0, 2))]
                present.extend(xs)
                ops.append("%s %s[%s]" % (rng.choice(["ex", "ia"]), rng.choice(["", "g", "t"]), ",".join(map(str, xs))))
            elif r < 0.85:
                ops.append("po %d" % rng.randint(-2, 3))
            elif r < 0.9:
                ops.append("rv")
            elif r < 0.95:
                ops.append("im %d" % rng.randint(0, 2))
            else:
                ops.append("ds N N 2")
        yield "%s|id|%s|%s" % (kind, S.show_list(init), ";".join(ops))


# ---------------------------------------------------------------------------
# malformed / unusual-argument stream (oracle only): arguments that are not
# plain lists or ints — falsy non-iterables, one-shot iterators, strings,
# numpy arrays, objects with __index__, bools, huge ints …
# ---------------------------------------------------------------------------

def _weird(name):
    import numpy as np

    class Idx:
        def __init__(self, v):
            self.v = v

        def __index__(self):
            if isinstance(self.v, str):
                raise ValueError("bad index")
            return self.v
    table = {
        "none": lambda: None, "zero": lambda: 0, "false": lambda: False, "true": lambda: True, "fzero": lambda: 0.0,
        "float1": lambda: 1.0, "emptystr": lambda: "", "str": lambda: "ab", "tuple": lambda: (4, 5), "emptytuple": lambda: (),
        "gen": lambda: (x for x in [7, 8]), "emptygen": lambda: iter([]), "range0": lambda: range(0), "range3": lambda: range(3),
        "dict": lambda: {1: 2}, "emptydict": lambda: {}, "set": lambda: {3}, "list": lambda: [1, 2], "emptylist": lambda: [],
        "np0": lambda: np.zeros(1, dtype=int), "npa0": lambda: np.array([0]), "np3": lambda: np.arange(3),
        "npempty": lambda: np.array([], dtype=int), "npint": lambda: np.int64(1), "idx2": lambda: Idx(2), "idxneg": lambda: Idx(-1),
        "float2": lambda: 2.0, "frac1": lambda: __import__("fractions").Fraction(1), "frac0": lambda: __import__("fractions").Fraction(0),
        "dec1": lambda: __import__("decimal").Decimal(1), "dec2": lambda: __import__("decimal").Decimal(2), "cplx1": lambda: 1 + 0j,
        "npfloat1": lambda: np.float64(1.0), "npfloat0": lambda: np.float64(0.0), "str1": lambda: "1",
        "idxraise": lambda: Idx("x"), "bigint": lambda: 10 ** 30, "negbig": lambda: -10 ** 30, "int1": lambda: 1, "intm1": lambda: -1,
    }
    return table[name]()


WEIRD_ITER = ["none", "zero", "false", "fzero", "emptystr", "str", "tuple", "emptytuple", "gen", "emptygen", "range0", "range3",
              "dict", "emptydict", "set", "list", "emptylist", "np0", "npa0", "np3", "npempty"]
WEIRD_IDX = ["none", "false", "true", "fzero", "float1", "npint", "idx2", "idxneg", "idxraise", "bigint", "negbig", "int1", "intm1", "str"]


def malformed_cases(rng, n):
    import json
    for _ in range(n):
        init = [rng.choice([0, 1, 2, 3, 5]) for _ in range(rng.randint(0, 4))]
        objs = rng.random() < 0.3
        if objs:      # items that are not reflexive under == (NaN, __eq__ -> False), whose == raises, or is always true
            init = [rng.choice([0, 1, 2]) if rng.random() < 0.3 else NR_BASE + rng.randrange(15) for _ in range(rng.randint(0, 5))]
        ops = []
        for _ in range(rng.randint(1, 4)):
            m = rng.choice(["extend", "extend", "iadd", "setslice", "setitem", "delitem", "insert", "pop", "imul"])
            if objs and rng.random() < 0.8:
                m = rng.choice(["remove", "remove", "index", "count", "contains"])
                ops.append([m, rng.choice(init) if init and rng.random() < 0.7 else NR_BASE + rng.randrange(15)])
                continue
            if m in ("extend", "iadd"):
                a = rng.choice([w for w in WEIRD_ITER if not (m == "iadd" and w.startswith("np"))])
                ops.append([m, a])
            elif m == "setslice":
                ops.append([m, rng.choice([None, 0, 1, -1]), rng.choice([None, 1, 2, 5]), rng.choice([None, 1, 2, -1]), rng.choice(WEIRD_ITER)])
            elif m == "imul":
                ops.append([m, rng.choice(["true", "false", "npint", "idx2", "fzero", "none", "int1", "bigint", "zero", "intm1", "idxneg",
                                          "float1", "float2", "frac1", "frac0", "dec1", "dec2", "cplx1", "npfloat1", "npfloat0",
                                          "str1", "float1", "frac1", "dec1"])])
            elif m in ("setitem", "insert"):
                ops.append([m, rng.choice(WEIRD_IDX), 9])
            else:
                ops.append([m, rng.choice(WEIRD_IDX)])
        yield "#" + json.dumps({"init": init, "ops": ops}, separators=(",", ":"))


def _apply_weird(l, op):
    m = op[0]
    if m == "extend":
        l.extend(_weird(op[1]))
    elif m == "iadd":
        l += _weird(op[1])
    elif m == "setslice":
        l[slice(op[1], op[2], op[3])] = _weird(op[4])
    elif m == "setitem":
        l[_weird(op[1])] = op[2]
    elif m == "delitem":
        del l[_weird(op[1])]
    elif m == "insert":
        l.insert(_weird(op[1]), op[2])
    elif m == "pop":
        return l.pop(_weird(op[1]))
    elif m == "imul":
        w = _weird(op[1])
        if isinstance(w, int) and abs(w) > 10 ** 6:
            raise OverflowError("skipped")
        l *= w
    elif m == "remove":
        l.remove(_obj(op[1]))
    elif m == "index":
        return l.index(_obj(op[1]))
    elif m == "count":
        return l.count(_obj(op[1]))
    elif m == "contains":
        return _obj(op[1]) in l
    return None


def run_malformed(c):
    from traits.trait_list_object import TraitList
    events = []
    tl = TraitList([_obj(x) for x in c["init"]], notifiers=[lambda t, i, r, a: events.append((i, list(r), list(a)))])
    plain = [_obj(x) for x in c["init"]]
    hits, tags, outs = [], set(), []
    for op in c["ops"]:
        snap = list(tl)
        del events[:]
        pe = te = None
        pr = tr = None
        try:
            pr = _apply_weird(plain, op)
        except Exception as e:
            pe = e
        try:
            tr = _apply_weird(tl, op)
        except Exception as e:
            te = e
        sig = "%s(%s)" % (op[0], op[-1] if op[0] in ("extend", "iadd", "setslice", "imul") else op[1])
        if op[0] in ("remove", "index", "count", "contains"):
            kinds = ["nan"] * 5 + ["never-equal"] * 5 + ["eq-raises"] * 3 + ["always-equal"] * 2
            inside = any(x is _obj(op[1]) for x in snap)
            sig = "%s(%s,%s)" % (op[0], kinds[op[1] - NR_BASE] if op[1] >= NR_BASE else "int", "in-list" if inside else "absent")
        tags.add("mal:" + op[0])
        after = list(tl)
        pn = type(pe).__name__ if pe is not None else None
        tn = type(te).__name__ if te is not None else None
        if pn != tn:
            hits.append(_hit("unusual-arg-exception-differs:" + sig, "list: %s, TraitList: %s" % (pn, tn)))
            plain = list(after)
        elif _codes(after) != _codes(plain):
            hits.append(_hit("unusual-arg-contents-differ:" + sig, "contents differ from builtin list", expected=_codes(plain), observed=_codes(after)))
            plain = list(after)
        elif _code(pr) != _code(tr):
            hits.append(_hit("unusual-arg-return-differs:" + sig, "return value differs"))
        if te is not None and (_codes(after) != _codes(snap) or events):
            hits.append(_hit("failed-op-mutated:" + sig, "failing operation changed the list or notified"))
        if len(events) > 1:
            hits.append(_hit("several-events:" + sig, "%d events" % len(events)))
        if _codes(after) != _codes(snap) and len(events) != 1:
            hits.append(_hit("change-without-event:" + sig, "contents changed, %d events" % len(events), before=_codes(snap), after=_codes(after)))
        for ix, removed, added in events:
            try:
                rep = py_replay(snap, ix, removed, added)
            except Exception as e:
                rep = "replay raised " + type(e).__name__
            if not isinstance(rep, list) or _codes(rep) != _codes(after):
                hits.append(_hit("replay-law:" + sig, "event does not replay to the contents", snapshot=_codes(snap),
                                 event=[repr(ix), repr(_codes(removed)), repr(_codes(added))], after=repr(_codes(after))))
            if not isinstance(ix, slice) and not (type(ix) is int and 0 <= ix <= len(snap)):
                hits.append(_hit("index-normal-form:" + sig, "index %r is not a plain int in 0..len" % (ix,)))
        outs.append("err " + tn if tn else "ok [" + ",".join(str(x) for x in _codes(after)) + "]")
    return " ; ".join(outs), hits, tags


def _hit(sig, what, **kw):
    d = {"signature": sig, "what": what}
    d.update(kw)
    return d


def py_replay(snap, index, removed, added):
    """The property's own words: replace, in the snapshot, the removed items
    at index by the added items."""
    out = list(snap)
    if isinstance(index, slice):
        if added:
            out[index] = added
        else:
            del out[index]
    else:
        out[index:index + len(removed)] = added
    return out


def run_impl(case):
    from traits.trait_list_object import TraitList
    if case.startswith("#"):
        import json
        return run_malformed(json.loads(case[1:]))
    kind, vspec, init, ops = case.split("|")
    init = S.parse_list(init)
    ops = [S.parse_op(o) for o in ops.split(";") if o.strip()]
    tags = set()
    hits = []
    outs = []
    if vspec == "id" and any(str(NR_BASE + i) in case for i in range(10)):
        # item codes 900..909 are fixed non-reflexive objects (see `_pool`); shown again as their codes
        for i in range(len(init)):
            init[i] = _obj(init[i])
        ops = [_objectify_op(o) for o in ops]
        tags.add("nonreflexive-items")

    def show_list(l):
        return S.show_list(_codes(l))
    if kind == "pl":
        l = list(init)
        for op in ops:
            try:
                r = S.apply_op(l, op)
                outs.append("ok %s %s -" % (show_list(l), "-" if r is None else _code(r)))
            except Exception as e:
                outs.append("err " + S.exc_name(e))
        return " ; ".join(outs), [], ["pl"] + sorted(tags)
    v = S.Validator(vspec)
    events = []
    held = []      # (raw removed, raw added, their copies at notification time, op kind): a faithful delta stays faithful

    def _rec(t, i, r, a):
        events.append((i, list(r), list(a)))
        held.append((r, a, list(r), list(a), None))
    # the caller keeps the list it passed as `notifiers` and changes it afterwards: what is notified is the
    # list's contents at construction time (`notifiers : list of callable`, copied by the constructor)
    spy_calls = []
    caller_list = [_rec]
    try:
        tl = TraitList(init, item_validator=v, notifiers=caller_list)
    except Exception as e:
        return "err " + S.exc_name(e), [], ["init-err"]
    caller_list.append(lambda t, i, r, a: spy_calls.append(i))
    del caller_list[0]
    shadow = list(tl)  # builtin list run on validated items
    for op in ops:
        k = op[0]
        tags.add(k)
        snap = list(tl)
        del events[:]
        nheld = len(held)
        v.reset()
        exc = None
        ret = None
        try:
            ret = S.apply_op(tl, op)
        except Exception as e:
            exc = e
        after = list(tl)
        # events delivered by EARLIER operations must not have changed under this one (an event whose
        # `added`/`removed` aliases the live list stops being a faithful delta as soon as the list changes)
        for j, (r, a, rc, ac, kk) in enumerate(held[:nheld]):
            if r is tl or a is tl or list(r) != rc or list(a) != ac:
                hits.append(_hit("event-aliases-live-list:" + str(kk), "the removed/added of an earlier %s event changed when the list "
                                 "was mutated later (it aliases the list)" % kk, at_notification=[rc, ac], now=[list(r), list(a)]))
                held[j] = (list(r), list(a), list(r), list(a), kk)
        for j in range(nheld, len(held)):
            r, a, rc, ac, _ = held[j]
            held[j] = (r, a, rc, ac, k)
        # ---------------- oracle: the property statement on the real code
        # (1) what a builtin list does on the validated items
        op = S.resolve_self(op, snap)      # `l.extend(l)` etc.: the argument is the contents before the call
        vexc = None
        vop = op
        try:
            if k in ("si", "in"):
                vop = (k, op[1], v.pure(0, op[2]))
            elif k == "ap":
                vop = (k, v.pure(0, op[1]))
            elif k == "ss":
                vop = (k, op[1], [v.pure(i, x) for i, x in enumerate(op[2])])
            elif k in ("ex", "ia"):
                vop = (k, [v.pure(i, x) for i, x in enumerate(op[1])])
        except Exception as e:
            vexc = e
        lexc = None
        lret = None
        ref = list(shadow)
        if vexc is None:
            try:
                lret = S.apply_op(ref, vop)
            except Exception as e:
                lexc = e
                ref = list(shadow)
        sig_op = k + ("-negstep" if k in ("ss", "ds") and (op[1].step or 1) < 0 else
                      "-ext" if k in ("ss", "ds") and (op[1].step or 1) > 1 else "")
        if exc is not None:
            tags.add("err:" + S.exc_name(exc))
            if after != snap:
                hits.append(_hit("failed-op-mutated:" + sig_op, "failing %s changed the list" % k,
                                 before=snap, after=after))
            if events:
                hits.append(_hit("failed-op-notified:" + sig_op, "failing %s emitted an event" % k))
            if vexc is None and lexc is None:
                hits.append(_hit("spurious-exception:" + sig_op,
                                 "%s raised %s where list succeeds" % (k, S.exc_name(exc))))
            elif vexc is not None and S.exc_name(exc) != S.exc_name(vexc):
                # validator failed: its exception comes through unchanged (class),
                # unless the raw operation is one the builtin list rejects anyway
                acceptable = set()
                try:
                    S.apply_op(list(shadow), op)
                except Exception as e2:
                    acceptable.add(S.exc_name(e2))
                if S.exc_name(exc) not in acceptable:
                    hits.append(_hit("wrong-exception:" + sig_op, "validator raised %s, operation raised %s" % (
                        S.exc_name(vexc), S.exc_name(exc))))
            elif lexc is not None and S.exc_name(exc) != S.exc_name(lexc):
                hits.append(_hit("wrong-exception:" + sig_op, "list raises %s, TraitList raised %s" % (
                    S.exc_name(lexc), S.exc_name(exc))))
            outs.append("err " + S.exc_name(exc))
            continue
        if vexc is not None or lexc is not None:
            hits.append(_hit("missing-exception:" + sig_op, "%s succeeded where %s" % (
                k, "the validator rejects" if vexc is not None else "list raises " + S.exc_name(lexc))))
        else:
            if after != ref:
                hits.append(_hit("contents-differ:" + sig_op, "contents differ from builtin list on validated items",
                                 expected=ref, observed=after))
            if _code(lret) != _code(ret):
                hits.append(_hit("return-differs:" + sig_op, "return value differs", expected=lret, observed=ret))
        shadow = list(after)
        # (2) events
        if len(events) > 1:
            hits.append(_hit("several-events:" + sig_op, "%d events for one operation" % len(events)))
        if after != snap and len(events) != 1:
            hits.append(_hit("change-without-event:" + sig_op, "contents changed, %d events" % len(events),
                             before=snap, after=after))
        for (ix, removed, added) in events:
            tags.add("ev-slice" if isinstance(ix, slice) else "ev-int")
            try:
                rep = py_replay(snap, ix, removed, added)
            except Exception as e:
                rep = "replay raised " + S.exc_name(e)
            if rep != after:
                hits.append(_hit("replay-law:" + sig_op, "replaying the event on the snapshot does not give the contents",
                                 snapshot=snap, event=[S.show_index(ix), removed, added], replay=rep, after=after))
            if isinstance(ix, slice):
                ok = (isinstance(ix.start, int) and isinstance(ix.stop, int) and isinstance(ix.step, int)
                      and 0 <= ix.start < ix.stop <= len(snap) and ix.step >= 2)
                if not ok or snap[ix] != removed:
                    hits.append(_hit("index-normal-form:" + sig_op, "slice index not normalised or not selecting removed",
                                     event=[S.show_index(ix), removed, added], snapshot=snap))
            else:
                if not (isinstance(ix, int) and not isinstance(ix, bool) and 0 <= ix <= len(snap)):
                    hits.append(_hit("index-normal-form:" + sig_op, "integer index out of 0..len",
                                     event=[S.show_index(ix), removed, added], snapshot=snap))
                elif snap[ix:ix + len(removed)] != removed:
                    hits.append(_hit("removed-not-at-index:" + sig_op, "removed items are not the items at index",
                                     event=[S.show_index(ix), removed, added], snapshot=snap))
        ev = "-"
        if events:
            ix, removed, added = events[0]
            ev = "E %s %s %s" % (S.show_index(ix), show_list(removed), show_list(added))
        outs.append("ok %s %s %s" % (show_list(after), "-" if ret is None else _code(ret), ev))
    if "nonreflexive-items" in tags:
        hits = [_plain(h) for h in hits]
    if spy_calls:
        hits.append(_hit("notifier-list-aliases-caller-list", "a notifier appended to the caller's own list after construction was called "
                         "(the TraitList shares the list object passed as `notifiers`)", calls=len(spy_calls)))
    return " ; ".join(outs), hits, tags
