"""Shared pieces of the `persist` cluster: the `P|…` line protocol on the REAL
code (twin of lean/TraitsVerif/Driver/Persist.lean), value/trait builders,
walkers used by the statement-level oracle, and the generators.

Never imports traits at module level (the engine activates the scratch build first).
"""
import copy
import pickle
import sys

from .seqlib import exc_name

# reserved probe items - never generated as ordinary values
RES_INTS = (5, 7)
RES_STRS = ("zz", "bad")

_CLASSES = {}
_NODE = [None]
import itertools  # noqa: E402
_SERIAL = itertools.count(1000)


# --------------------------------------------------------------------- tokens

class Toks:
    def __init__(self, s):
        self.t = s.split()
        self.i = 0

    def next(self):
        x = self.t[self.i]
        self.i += 1
        return x

    def done(self):
        return self.i >= len(self.t)


def node_class():
    """`Node`: the class of objects held by Instance traits (leaf type 4)."""
    if _NODE[0] is None:
        from traits.api import HasTraits, Int, List
        ns = {"tag": Int(), "items": List(Int), "__module__": __name__, "__qualname__": "Node"}
        cls = type(HasTraits)("Node", (HasTraits,), ns)
        setattr(sys.modules[__name__], "Node", cls)
        _NODE[0] = cls
    return _NODE[0]


def parse_leaf(tk, pool):
    from traits.api import Undefined
    k = tk.next()
    if k == "n":
        return None
    if k == "u":
        return Undefined
    if k == "i":
        return int(tk.next())
    if k == "s":
        return tk.next()
    if k == "r":
        return pool[int(tk.next())]
    raise ValueError("leaf " + k)


def parse_val(tk, pool):
    k = tk.t[tk.i]
    if k == "l":
        tk.next()
        c = int(tk.next())
        return [parse_val(tk, pool) for _ in range(c)]
    if k == "d":
        tk.next()
        c = int(tk.next())
        d = {}
        for _ in range(c):
            key = parse_leaf(tk, pool)
            d[key] = parse_val(tk, pool)
        return d
    if k == "t":
        tk.next()
        c = int(tk.next())
        return set(parse_leaf(tk, pool) for _ in range(c))
    return parse_leaf(tk, pool)


def parse_shape(tk):
    k = tk.next()
    if k == "A":
        return ("A",)
    if k == "T":
        return ("T", int(tk.next()))
    if k == "L":
        lo, hi = int(tk.next()), int(tk.next())
        return ("L", lo, hi, parse_shape(tk))
    if k == "D":
        kt = int(tk.next())
        return ("D", kt, parse_shape(tk))
    if k == "S":
        return ("S", int(tk.next()))
    raise ValueError("shape " + k)


def inner_shape(sh):
    if sh[0] == "L":
        return sh[3]
    if sh[0] == "D":
        return sh[2]
    return ("A",)


def parse_decl(s, pool):
    tk = Toks(s)
    name, kind, tr, cp = tk.next(), tk.next(), tk.next(), tk.next()
    sh = parse_shape(tk)
    dyn = tk.t[tk.i:] == ["q"]
    dv = 0 if dyn else parse_val(tk, pool)
    if dyn:
        tk.next()
    assert tk.done(), s
    return {"name": name, "kind": kind, "transient": tr == "1", "copy": {"-": None, "r": "ref", "s": "shallow",
            "d": "deep"}[cp], "shape": sh, "default": dv, "dyn": dyn}


# --------------------------------------------------------------------- traits

def leaf_trait(t, default=None, **md):
    from traits.api import Any, CInt, Instance, Int, Str
    if t == 0:
        return Int(0 if default is None else default, **md)
    if t == 1:
        return Str("" if default is None else default, **md)
    if t == 2:
        return CInt(0 if default is None else default, **md)
    if t == 4:
        return Instance(node_class(), **md)
    return Any(default, **md)


def trait_of(sh, default=None, top=False, **md):
    from traits.api import Any, Dict, List, Set
    if sh[0] == "A":
        return Any(default, **md)
    if sh[0] == "T":
        return leaf_trait(sh[1], default, **md)
    if sh[0] == "L":
        kw = dict(md)
        return List(trait_of(sh[3]), value=list(default) if default is not None else None,
                    minlen=sh[1], maxlen=sh[2], **kw)
    if sh[0] == "D":
        return Dict(leaf_trait(sh[1]), trait_of(sh[2]), value=dict(default) if default is not None else None, **md)
    if sh[0] == "S":
        return Set(leaf_trait(sh[1]), value=set(default) if default is not None else None, **md)
    raise ValueError(sh)


def _accessors(shadow):
    # arity matters: traits passes (object[, name[, value]]) according to the argument count
    def getter(self):
        return getattr(self, shadow)

    def setter(self, value):
        setattr(self, shadow, value)
    return getter, setter


def build_class(decl_str, decls):
    """HasTraits subclass for a declaration list (cached; importable by pickle)."""
    if decl_str in _CLASSES:
        return _CLASSES[decl_str]
    from traits.api import Any, Event, HasTraits, Int, Property, ReadOnly
    ns = {}
    for d in decls:
        md = {}
        if d["transient"]:
            md["transient"] = True
        if d["kind"] in ("v", "p"):
            md["copy"] = d["copy"]  # always explicit: List/Set/Instance would default to "deep", Dict to nothing
        n = d["name"]
        if d["kind"] == "v" and d.get("dyn"):
            ns[n] = trait_of(d["shape"], None, **md)
            ns["_%s_default" % n] = lambda self: next(_SERIAL)   # non-reproducible: a serial number
        elif d["kind"] == "v":
            ns[n] = trait_of(d["shape"], d["default"], **md)
        elif d["kind"] == "r":
            ns[n] = ReadOnly(**md) if md else ReadOnly
        elif d["kind"] == "e":
            ns[n] = Event(Int)
        elif d["kind"] == "p":
            sh = "_%s_sh" % n
            ns[sh] = Any(d["default"], transient=True)
            ns[n] = Property(trait_of(d["shape"]), **md)

            ns["_get_" + n], ns["_set_" + n] = _accessors(sh)
    cname = "C%d" % len(_CLASSES)
    ns["__module__"] = __name__
    ns["__qualname__"] = cname
    cls = type(HasTraits)(cname, (HasTraits,), ns)
    setattr(sys.modules[__name__], cname, cls)
    _CLASSES[decl_str] = cls
    return cls


# --------------------------------------------------------------------- walking

def is_cont(v):
    return isinstance(v, (list, dict, set))


def kids_of(v):
    if isinstance(v, list):
        return list(v)
    if isinstance(v, dict):
        return list(v.values())
    return []


def walk_ids(v, conts, objs, seen=None):
    """ids of every mutable container / HasTraits object reachable from value v."""
    from traits.api import HasTraits
    seen = set() if seen is None else seen
    if id(v) in seen:
        return
    if is_cont(v):
        seen.add(id(v))
        conts[id(v)] = v
        if isinstance(v, dict):
            for k in v:
                walk_ids(k, conts, objs, seen)
        if isinstance(v, set):
            for k in v:
                walk_ids(k, conts, objs, seen)
        for k in kids_of(v):
            walk_ids(k, conts, objs, seen)
    elif isinstance(v, HasTraits):
        seen.add(id(v))
        objs[id(v)] = v
        for x in list(v.__dict__.values()):
            walk_ids(x, conts, objs, seen)


def obj_ids(obj):
    conts, objs = {}, {}
    for x in list(obj.__dict__.values()):
        walk_ids(x, conts, objs)
    return conts, objs


def plain(v, depth=0):
    """Value alone (no identities, no classes): what `==` means for the oracle."""
    from traits.api import HasTraits, Undefined
    if depth > 20:
        return "<deep>"
    if isinstance(v, list):
        return ["L"] + [plain(x, depth + 1) for x in v]
    if isinstance(v, dict):
        return ["D"] + sorted(([repr(plain(k, depth + 1)), plain(x, depth + 1)] for k, x in v.items()), key=repr)
    if isinstance(v, set):
        return ["S"] + sorted((plain(x, depth + 1) for x in v), key=repr)
    if v is Undefined:
        return "U"
    if isinstance(v, HasTraits):
        return ["@", v.tag if hasattr(v, "tag") else "?", plain(list(v.items), depth + 1) if hasattr(v, "items") else None]
    return v


# --------------------------------------------------------------------- display (twin of showVal)

def show_leaf(a, earlier_objs):
    from traits.api import HasTraits, Undefined
    if a is None:
        return "N"
    if a is Undefined:
        return "U"
    if isinstance(a, bool):
        return repr(a)
    if isinstance(a, int):
        return str(a)
    if isinstance(a, str):
        return "'" + a + "'"
    if isinstance(a, HasTraits):
        return "@%d%s" % (a.tag, "s" if id(a) in earlier_objs else "f")
    return "?" + type(a).__name__


def bind_flag(v, self_obj):
    if type(v) in (list, dict, set):
        return "p"
    ref = getattr(v, "object", None)
    o = ref() if ref is not None else None
    if o is None:
        return "d" if getattr(v, "trait", None) is None else "w"
    return "b" if o is self_obj else "o"


def show_val(v, self_obj, old, earlier_objs):
    if not is_cont(v):
        return show_leaf(v, earlier_objs)
    tag = ("L" if isinstance(v, list) else "D" if isinstance(v, dict) else "S") + bind_flag(v, self_obj) + \
        ("s" if id(v) in old else "f")
    if isinstance(v, list):
        return tag + "[" + ",".join(show_val(x, self_obj, old, earlier_objs) for x in v) + "]"
    if isinstance(v, dict):
        return tag + "{" + ",".join(sorted(show_leaf(k, earlier_objs) + ":" + show_val(x, self_obj, old, earlier_objs)
                                           for k, x in v.items())) + "}"
    return tag + "{" + ",".join(sorted(show_leaf(k, earlier_objs) for k in v)) + "}"


# --------------------------------------------------------------------- probes (twin of badProbe / goodProbe)

def invalid_leaf(t):
    return {0: "bad", 1: 7, 2: "bad", 4: 7}.get(t, NotImplemented)


def valid_leaf(t):
    return {0: 5, 1: "zz", 2: 5, 4: None}.get(t, 5)


def invalid_item(sh):
    if sh[0] == "A":
        return NotImplemented
    if sh[0] == "T":
        return invalid_leaf(sh[1])
    return 7


def valid_item(sh):
    if sh[0] == "A":
        return 5
    if sh[0] == "T":
        return valid_leaf(sh[1])
    return {"L": [], "D": {}, "S": set()}[sh[0]]


def bad_probe(sh):
    if sh[0] == "L":
        it = invalid_item(sh[3])
        return None if it is NotImplemented else (None, it)
    if sh[0] == "D":
        it = invalid_item(sh[2])
        if it is not NotImplemented:
            return (valid_leaf(sh[1]), it)
        k = invalid_leaf(sh[1])
        return None if k is NotImplemented else (k, None)
    if sh[0] == "S":
        k = invalid_leaf(sh[1])
        return None if k is NotImplemented else (k, None)
    return ("bad", "bad")


def good_probe(sh):
    if sh[0] == "L":
        return (None, valid_item(sh[3]))
    if sh[0] == "D":
        return (valid_leaf(sh[1]), valid_item(sh[2]))
    if sh[0] == "S":
        return (valid_leaf(sh[1]), None)
    return (5, 5)


def nodes_of(sh, path, v, out):
    if not is_cont(v):
        return
    out.append((path, sh, v))
    inner = inner_shape(sh) if sh[0] in ("L", "D") else ("A",)
    for i, k in enumerate(kids_of(v)):
        nodes_of(inner, path + [i], k, out)


def add_to(node, key, item):
    """append / setitem / add, with undo.  Returns 'acc' | 'rej' | 'err X'."""
    from traits.api import TraitError
    try:
        if isinstance(node, list):
            node.append(item)
            undo = lambda: list.pop(node)  # noqa: E731  (silent undo: no validation, no event)
        elif isinstance(node, dict):
            had = key in node
            oldv = node.get(key)
            node[key] = item
            if had:
                undo = lambda: dict.__setitem__(node, key, oldv)  # noqa: E731
            else:
                undo = lambda: dict.pop(node, key, None)  # noqa: E731
        else:
            had = key in node
            node.add(key)
            undo = (lambda: None) if had else (lambda: set.discard(node, key))
    except TraitError:
        return "rej", None
    except Exception as e:
        return "err " + exc_name(e), None
    return "acc", undo


def navigate(v, path):
    """Follow child positions; returns (node, None) or (None, 'err X')."""
    for p in path:
        if not is_cont(v):
            return None, "err TypeError"
        ks = kids_of(v)
        if p >= len(ks):
            return None, "err IndexError"
        v = ks[p]
    if not is_cont(v):
        return None, "err TypeError"
    return v, None


# --------------------------------------------------------------------- the protocol

COPY_SIG = {"pickle": "pickle", "copy": "copy", "deepcopy": "deepcopy", "clone n": "clone-ref",
            "clone s": "clone-shallow", "clone d": "clone-deep"}


def do_copy(obj, op):
    w = op.split()
    if w[0] == "pickle":
        return pickle.loads(pickle.dumps(obj, int(w[1])))
    if w[0] == "copy":
        return copy.copy(obj)
    if w[0] == "deepcopy":
        return copy.deepcopy(obj)
    if w[0] == "clone":
        return obj.clone_traits(copy={"n": None, "s": "shallow", "d": "deep"}[w[1]])
    raise ValueError(op)


def shape_class(sh):
    if sh[0] == "T":
        return "T%d" % sh[1]
    if sh[0] in ("L", "D"):
        return sh[0] + "(" + shape_class(inner_shape(sh)) + ")"
    return sh[0]


def run_p(case):
    """Execute one `P|decls|hist|copies` case on the real code.
    Returns (output_line, hits, tags)."""
    from traits.api import TraitError, Undefined
    _, decl_s, hist_s, copy_s = case.split("|")
    Node = node_class()
    pool = [Node(tag=i, items=[i, i + 10]) for i in range(3)]
    decl_list = [x.strip() for x in decl_s.split(";") if x.strip()]
    decls = [parse_decl(x, pool) for x in decl_list]
    cls = build_class(decl_s.strip(), decls)
    by_name = dict((d["name"], d) for d in decls)
    obj = cls()
    tags = set()
    hits = []
    hres = []
    for op in [x.strip() for x in hist_s.split(";") if x.strip()]:
        tk = Toks(op)
        k = tk.next()
        tags.add("h:" + k)
        try:
            if k == "set":
                name = tk.next()
                v = parse_val(tk, pool)
                setattr(obj, name, v)
                hres.append("ok")
            elif k == "add":
                name = tk.next()
                plen = int(tk.next())
                path = [int(tk.next()) for _ in range(plen)]
                key = parse_leaf(tk, pool)
                item = parse_val(tk, pool)
                cur = getattr(obj, name)
                node, err = navigate(cur, path)
                if err:
                    hres.append(err)
                else:
                    if isinstance(node, list):
                        node.append(item)
                    elif isinstance(node, dict):
                        node[key] = item
                    else:
                        node.add(key)
                    hres.append("ok")
            elif k == "alias":
                dst, src = tk.next(), tk.next()
                setattr(obj, dst, getattr(obj, src))
                hres.append("ok")
            else:
                raise ValueError(op)
        except Exception as e:
            if isinstance(e, (ValueError,)) and str(e) == op:
                raise
            hres.append("err " + exc_name(e))
    out = ",".join(hres) + " # "
    # ---- copy chain
    earlier = []
    cur = obj
    copies = [x.strip() for x in copy_s.split(";") if x.strip()]
    last_sig = None
    for op in copies:
        sig = COPY_SIG[op if not op.startswith("pickle") else "pickle"]
        tags.add("c:" + sig + (":" + op.split()[1] if op.startswith("pickle") else ""))
        try:
            new = do_copy(cur, op)
        except Exception as e:
            hits.append({"signature": "copy-raises:%s:%s" % (sig, exc_name(e)),
                         "what": "%s of a reachable object state raised %s: %s" % (op, type(e).__name__, str(e)[:120])})
            return out + "copyerr " + exc_name(e), hits, tags
        earlier.insert(0, cur)
        cur = new
        last_sig = sig
    if not copies:
        last_sig = "none"
    src = earlier[0] if earlier else None
    # ---- sets of identities reachable from earlier objects
    old, eobjs = {}, {}
    for e in earlier:
        c, o = obj_ids(e)
        old.update(c)
        eobjs.update(o)
        eobjs[id(e)] = e
    # ---- handlers for the items events
    fired = []

    def mk(owner):
        def h(object, name, old_, new_):
            fired.append((owner, name))
        return h
    hs = []
    for d in decls:
        if d["kind"] == "v" and d["shape"][0] in ("L", "D", "S"):
            for who, o in [("c", cur)] + [("o", e) for e in earlier]:
                h = mk(who)
                o.on_trait_change(h, d["name"] + "_items")
                hs.append(h)
    shown, probes, ro = [], [], []
    vals = []
    for d in decls:
        if d["kind"] == "e":
            continue
        v = getattr(cur, d["name"])
        vals.append((d, v))
    for d, v in vals:
        if d.get("dyn"):
            # what the predecessor reads NOW (afterwards): __getstate__ / copy_traits read the original, which
            # computes a pending default once and keeps it, so both must report the same value
            if src is None:
                shown.append(d["name"] + "=Q")
            else:
                pv = getattr(src, d["name"])
                shown.append(d["name"] + ("=Q=" if pv == v else "=Q!"))
                if pv != v and not d["transient"]:
                    hits.append({"signature": "dynamic-default-differs:" + last_sig,
                                 "what": "%s has a non-reproducible default that nobody had read: after %s the copy "
                                         "reads %r, the original %r" % (d["name"], last_sig, v, pv)})
            continue
        shown.append(d["name"] + "=" + show_val(v, cur, old, eobjs))
    for d, v in vals:
        nodes = []
        nodes_of(d["shape"], [], v, nodes)
        for path, shp, node in nodes:
            bp = bad_probe(shp)
            if bp is None:
                bad = "-"
            else:
                bad, undo = add_to(node, bp[0], bp[1])
                if undo:
                    undo()
            gk, git = good_probe(shp)
            del fired[:]
            good, undo = add_to(node, gk, git)
            if good == "acc":
                owners = set(w for w, _ in fired)
                if "c" in owners:
                    good += "+c"
                elif "o" in owners:
                    good += "+o"
                if undo:
                    undo()
            probes.append("%s/%s:%s:%s" % (d["name"], ".".join(map(str, path)), bad, good))
            # ---------------- oracle: liveness of declared containers
            declared = shp[0] in ("L", "D", "S")
            if declared and src is not None:
                scl = shape_class(d["shape"])
                if bp is not None and bad != "rej":
                    hits.append({"signature": "not-live:%s:%s:depth%d" % (last_sig, scl, len(path)),
                                 "what": "after %s the container at %s/%s accepted an invalid item (%s)" % (
                                     last_sig, d["name"], path, bad)})
                if not path and good.startswith("acc") and d["kind"] == "v":
                    if good != "acc+c":
                        hits.append({"signature": "items-event-missing:%s:%s" % (last_sig, scl),
                                     "what": "mutating %s on the copy fired %s" % (d["name"], good)})
                    if any(w == "o" for w, _ in fired):
                        hits.append({"signature": "items-event-on-original:%s:%s" % (last_sig, scl),
                                     "what": "mutating %s on the copy notified an earlier object" % d["name"]})
    for d, v in vals:
        if d["kind"] == "r":
            try:
                setattr(cur, d["name"], 1)
                ro.append(d["name"] + ":acc")
            except TraitError:
                ro.append(d["name"] + ":rej")
            except Exception as e:
                ro.append(d["name"] + ":err " + exc_name(e))
    out += " ".join(shown) + " # " + " ".join(probes) + " # " + " ".join(ro)
    # ---------------- oracle: the statement on (src -> cur)
    if src is not None:
        if type(cur) is not type(src):
            hits.append({"signature": "class-differs:" + last_sig, "what": "copy is a %s" % type(cur).__name__})
        deep_like = last_sig in ("pickle", "deepcopy", "clone-deep")
        for d, v in vals:
            name = d["name"]
            scl = shape_class(d["shape"])
            sv = getattr(src, name)
            srcflag = bind_flag(sv, src) if is_cont(sv) else "-"
            sconts, sobjs = {}, {}
            walk_ids(sv, sconts, sobjs)
            if any(bind_flag(c, src) == "d" for c in sconts.values()):
                srcflag = "d"
            eff = d["copy"] or {"clone-ref": "ref", "clone-shallow": "shallow", "clone-deep": "deep",
                                "deepcopy": "deep", "copy": "copy", "pickle": "pickle"}[last_sig]
            if d["transient"] and d.get("dyn"):
                continue    # back at its default = computed afresh on the copy: any value is right
            if d["transient"]:
                dv = d["default"]
                if d["kind"] == "r":
                    dv = Undefined
                if plain(v) != plain(dv):
                    allt = all(x["transient"] or x["kind"] == "e" for x in decls)
                    hits.append({"signature": "transient-not-default:%s:%s" % (
                        last_sig if last_sig in ("pickle", "copy") else "clone",
                        "all-traits-transient" if allt else "some-traits-copyable"),
                                 "what": "transient %s = %r after %s" % (name, v, last_sig)})
                continue
            if plain(v) != plain(sv):
                hits.append({"signature": "value-differs:%s:%s:src-%s" % (
                    last_sig if last_sig in ("pickle", "copy") else "clone", eff, srcflag),
                             "what": "%s: original %r, after %s %r" % (name, sv, last_sig, v)})
            if d["kind"] == "r" and sv is not Undefined:
                if (name + ":rej") not in ro:
                    hits.append({"signature": "readonly-writable:" + last_sig,
                                 "what": "write-once %s can be assigned again after %s" % (name, last_sig)})
            # sharing
            conts, objs = {}, {}
            walk_ids(v, conts, objs)
            shared = [i for i in conts if i in old]
            shared_objs = [i for i in objs if i in eobjs]
            if deep_like and (shared or shared_objs) and d["copy"] in (None, "deep"):
                hits.append({"signature": "shared-mutable:%s:copy-metadata-%s" % (last_sig, d["copy"]),
                             "what": "%s shares %d container(s) / %d object(s) with the original after %s" % (
                                 name, len(shared), len(shared_objs), last_sig)})
            # declared container positions are rebuilt whatever the mode
            nodes = []
            nodes_of(d["shape"], [], v, nodes)
            for path, shp, node in nodes:
                if shp[0] in ("L", "D", "S") and id(node) in old and d["kind"] == "v":
                    hits.append({"signature": "shared-typed-container:%s:%s:depth%d" % (last_sig, scl, len(path)),
                                 "what": "%s/%s is the same container object as in an earlier object (%s, copy=%s)" % (
                                     name, path, last_sig, eff)})
                if shp[0] in ("L", "D", "S") and d["kind"] == "v" and bind_flag(node, cur) != "b":
                    hits.append({"signature": "not-rebound:%s:%s:depth%d" % (last_sig, scl, len(path)),
                                 "what": "%s/%s is not bound to the copy (%s)" % (name, path, bind_flag(node, cur))})
    for h in hs:
        pass
    tags.add("decls:%d" % len(decls))
    return out, hits, tags


# --------------------------------------------------------------------- generators

LEAF_VALS = {0: [0, 1, 2, 3, -4, 11], 1: ["a", "b", "c", "3", "x1"], 2: [0, 1, 2, "3", "-2", 9], 4: ["r0", "r1", "r2", None]}


def tok_leaf(a):
    if a is None:
        return "n"
    if isinstance(a, int):
        return "i %d" % a
    if isinstance(a, str) and a.startswith("r") and a[1:].isdigit():
        return "r " + a[1:]
    return "s " + a


def gen_leaf(rng, t, valid=True):
    if not valid:
        return rng.choice(["s q", "i 8", "n", "l 0"]) if t != 1 else rng.choice(["i 8", "n", "l 0"])
    vals = LEAF_VALS.get(t)
    if vals is None:
        return rng.choice(["i 1", "s a", "n", "i 2"])
    return tok_leaf(rng.choice(vals))


def gen_val(rng, sh, depth=0, valid=True):
    """A literal (prefix tokens) that is valid (mostly) for shape sh."""
    if sh[0] == "A":
        r = rng.random()
        if r < 0.45 and depth < 2:
            k = rng.randint(0, 2)
            return "l %d %s" % (k, " ".join(gen_val(rng, ("A",), depth + 1) for _ in range(k))) if k else "l 0"
        if r < 0.55 and depth < 2:
            return "d 1 s k %s" % gen_val(rng, ("A",), depth + 1)
        if r < 0.62:
            return "t 2 i 1 i 2"
        return rng.choice(["i 1", "s a", "n", "i 2", "r 0", "r 1"])
    if sh[0] == "T":
        return gen_leaf(rng, sh[1], valid)
    if sh[0] == "L":
        lo, hi = sh[1], min(sh[2], 4)
        k = rng.randint(lo, max(lo, hi)) if valid else hi + 1 + rng.randint(0, 1) if sh[2] < 9 else rng.randint(lo, hi)
        items = [gen_val(rng, sh[3], depth + 1, valid or rng.random() < 0.5) for _ in range(k)]
        if not valid and sh[2] >= 9:
            if items:
                items[rng.randrange(len(items))] = gen_val(rng, sh[3], depth + 1, False) if sh[3][0] == "T" else "i 8"
            else:
                return "i 8"
        return "l %d %s" % (k, " ".join(items)) if k else "l 0"
    if sh[0] == "D":
        k = rng.randint(0, 3)
        keys = []
        pool = [x for x in LEAF_VALS.get(sh[1], ["a", "b"]) if not (sh[1] == 2 and isinstance(x, str))]
        rng.shuffle(pool)
        keys = pool[:k]
        parts = []
        for key in keys:
            parts.append(tok_leaf(key) + " " + gen_val(rng, sh[2], depth + 1, valid))
        if not valid and not parts:
            return "l 0"
        return "d %d %s" % (len(keys), " ".join(parts)) if keys else "d 0"
    if sh[0] == "S":
        pool = [x for x in LEAF_VALS.get(sh[1], [1, 2]) if not isinstance(x, str) or sh[1] == 1]
        rng.shuffle(pool)
        k = rng.randint(0, 3)
        ks = pool[:k]
        if not valid:
            return "t 1 " + gen_leaf(rng, sh[1], False).replace("l 0", "n")
        return "t %d %s" % (len(ks), " ".join(tok_leaf(x) for x in ks)) if ks else "t 0"
    raise ValueError(sh)


def shape_tok(sh):
    if sh[0] == "A":
        return "A"
    if sh[0] == "T":
        return "T %d" % sh[1]
    if sh[0] == "L":
        return "L %d %d %s" % (sh[1], sh[2], shape_tok(sh[3]))
    if sh[0] == "D":
        return "D %d %s" % (sh[1], shape_tok(sh[2]))
    return "S %d" % sh[1]


def default_tok(sh):
    return {"A": "n", "L": "l 0", "D": "d 0", "S": "t 0"}.get(sh[0]) or {0: "i 0", 1: "s e", 2: "i 0", 4: "n"}[sh[1]]


I, S, C, N = ("T", 0), ("T", 1), ("T", 2), ("T", 4)
MENU = [
    # (name, kind, shape, weight)
    ("i", "v", I), ("s", "v", S), ("c", "v", C), ("x", "v", ("A",)), ("y", "v", ("A",)),
    ("l", "v", ("L", 0, 9, I)), ("lc", "v", ("L", 0, 9, C)), ("lm", "v", ("L", 1, 3, I)),
    ("ll", "v", ("L", 0, 9, ("L", 0, 9, I))), ("lll", "v", ("L", 0, 9, ("L", 0, 2, ("L", 0, 9, S)))),
    ("la", "v", ("L", 0, 9, ("A",))), ("d", "v", ("D", 1, ("L", 0, 9, I))), ("di", "v", ("D", 1, I)),
    ("dc", "v", ("D", 2, S)), ("dd", "v", ("D", 1, ("D", 0, I))), ("st", "v", ("S", 0)), ("ss", "v", ("S", 1)),
    ("ls", "v", ("L", 0, 9, ("S", 0))), ("n", "v", N), ("ln", "v", ("L", 0, 9, N)), ("dn", "v", ("D", 1, N)),
    ("r", "r", ("A",)), ("e", "e", I), ("p", "p", I), ("pc", "p", C), ("dy", "v", I),
]


def gen_decls(rng):
    k = rng.randint(2, 6)
    menu = list(MENU)
    rng.shuffle(menu)
    chosen = menu[:k]
    if rng.random() < 0.5 and not any(n in ("x", "y") for n, _, _ in chosen):
        chosen.append(("x", "v", ("A",)))
    out = []
    for name, kind, sh in sorted(chosen, key=lambda c: [m[0] for m in MENU].index(c[0])):
        tr = "0"
        cp = "-"
        if kind == "v":
            r = rng.random()
            if r < 0.15:
                tr = "1"
            r = rng.random()
            natural = "d" if (sh[0] in ("L", "S") or sh == N) else "-"   # what the trait type defaults to
            cp = natural
            if r < 0.35:
                cp = rng.choice(["r", "s", "d", "-"])
        dv = default_tok(sh) if kind != "r" else "u"
        if name == "dy":
            dv = "q"
            cp = "-"
        if kind == "v" and sh == I and rng.random() < 0.3:
            dv = "i 3"
        if kind == "v" and sh[0] == "L" and sh[3] == I and sh[1] == 0 and rng.random() < 0.3:
            dv = "l 2 i 1 i 2"
        if kind == "v" and sh[0] == "L" and sh[1] > 0:
            dv = "l 1 i 1"
        out.append(("%s %s %s %s %s %s" % (name, kind, tr, cp, shape_tok(sh), dv), name, kind, sh))
    return out


def node_paths(rng, sh, depth=0):
    """a random path of child positions (small) into a value of shape sh."""
    path = []
    cur = sh
    while cur[0] in ("L", "D") and inner_shape(cur)[0] in ("L", "D", "S") and rng.random() < 0.6:
        path.append(rng.randint(0, 1))
        cur = inner_shape(cur)
    return path, cur


def gen_hist(rng, decls):
    ops = []
    names = [(n, k, sh) for _, n, k, sh in decls]
    anys = [n for n, k, sh in names if sh[0] == "A" and k == "v"]
    conts = [(n, sh) for n, k, sh in names if k == "v" and sh[0] in ("L", "D", "S")]
    for _ in range(rng.randint(0, 7)):
        n, k, sh = rng.choice(names)
        r = rng.random()
        if conts and r < 0.4:
            n, sh = rng.choice(conts)
            path, at = node_paths(rng, sh)
            valid = rng.random() < 0.8
            if at[0] == "L":
                ops.append("add %s %d %s n %s" % (n, len(path), " ".join(map(str, path)), gen_val(rng, at[3], 1, valid)))
            elif at[0] == "D":
                key = gen_leaf(rng, at[1], valid or rng.random() < 0.5)
                if key.startswith("l"):
                    key = "n"
                ops.append("add %s %d %s %s %s" % (n, len(path), " ".join(map(str, path)), key,
                                                  gen_val(rng, at[2], 1, valid)))
            else:
                key = gen_leaf(rng, at[1], valid)
                if key.startswith("l"):
                    key = "n"
                ops.append("add %s %d %s %s n" % (n, len(path), " ".join(map(str, path)), key))
        elif k == "e":
            ops.append("set %s i 1" % n)
        elif k == "r":
            ops.append("set %s %s" % (n, rng.choice(["i 4", "s w", "l 1 i 1", "u"])))
        else:
            ops.append("set %s %s" % (n, gen_val(rng, sh, 0, rng.random() < 0.85)))
    if anys and conts and rng.random() < 0.35:
        ops.append("alias %s %s" % (rng.choice(anys), rng.choice(conts)[0]))
    elif anys and rng.random() < 0.3:
        ops.append("set %s %s" % (rng.choice(anys), rng.choice(["l 2 i 1 l 1 i 2", "d 1 s k l 1 i 1", "t 2 i 1 i 2"])))
    return [" ".join(o.split()) for o in ops]


COPY_OPS = ["pickle 0", "pickle 1", "pickle 2", "pickle 3", "pickle 4", "pickle 5", "copy", "deepcopy",
            "clone n", "clone s", "clone d"]


def gen_case(rng, chain=None):
    decls = gen_decls(rng)
    hist = gen_hist(rng, decls)
    if chain is None:
        chain = 1 if rng.random() < 0.8 else 2
    ops = [rng.choice(COPY_OPS) for _ in range(chain)]
    return "P|%s|%s|%s" % (";".join(d[0] for d in decls), ";".join(hist), ";".join(ops))
