"""C12 - observed / cached properties are never stale and announce dependency changes.

Case line (see lean/TraitsVerif/Driver/Property.lean for the grammar):

    shape | nobjects | step ; step ; ...

A leading '#' marks a case that is run on the implementation + oracle only
(histories in which a re-pointed link is reachable through itself - F10 - and
legacy `depends_on` classes on shared / repeated items: there the real observe /
listener machinery deviates from its specification, which the C12 model takes as
an interface assumption).
"""
import copy as _copy
import pickle as _pickle

from . import seqlib as S

PROPERTY = "C12"
DRIVER = "TraitsVerif/Driver/Property.lean"
PROPS_MODULES = ["TraitsVerif.Props.C12"]
TRANSLATORS = ["propstate", "propsrc"]
RULE = ("seeded random histories of 1-15 steps over a pool of 3-6 HasTraits objects (value/aux Int, xm = Map({...}) whose SHADOW xm_ "
        "the getters read, xn/xi/xe Any with comparison_mode "
        "none/identity/equality assigned equal-but-distinct objects 1/1.0/True, (1,2)/(1.0,2.0), 2/2.0, inst Instance, "
        "kids List(Instance), byname Dict(Str, Instance), tags Set(Int)); a class per shape: Property(observe=E) or "
        "legacy depends_on, declared in one class or through a hierarchy (base plain getter / subclass "
        "@cached_property over one or two levels, base cached / subclass plain, redeclared in the subclass with "
        "another expression), cached or not, 28 expressions (scalar, inst.value, kids.items.value, byname.items, "
        "inst.kids.items.value, tags.items, two-link paths, lists of paths), full-view or lossy-sum getter, getter "
        "returning None / 0 / '' / [] (kind F), getter returning Undefined, getter raising on its k-th call, class-level _p_changed listener, static readers on "
        "aux / value, class-level _anytrait_changed (shape extra A), dynamically attached listeners of every kind, together or each as "
        "the only one the object ever had: on_trait_change by name, observe by name, name-less on_trait_change (object-level "
        "notifier list), and a late reader; steps: scalar set, "
        "Instance reassignment (incl. None, same object, self links), list/dict/set reassignment (incl. equal "
        "content) and in-place item mutation with duplicates (23 container methods), container calls whose last item is "
        "rejected by the item / key / value trait (extend, slice, +=, whole-list / whole-dict assignment, dict.update with a bad "
        "value or key, set.update, |=: must raise, leave nothing behind, and in any case leave cache == recomputation and "
        "the listeners told), sets / deletes through the property's own setter (arity 2 / 3, validated, read-only), "
        "irrelevant changes, reads, "
        "attach/detach, construction with keyword arguments, pickle round trip / clone_traits / deepcopy of the whole "
        "graph at a random point; histories ending with a value the observers cannot be "
        "hooked to (None appended to a list / stored in a dict, an object without the observed traits assigned to "
        "inst: the statement raises after the store; impl + oracle only, cache and reads compared with a "
        "recomputation on the live object); a small family where the un-hookable value is not the last one to hook "
        "(list literal / extend / slice assignment / dict with None first or in the middle; known finding); "
        "scripted cores (repeated items + same-length slice assignment changing "
        "the multiplicities + pop + change of everything still reachable, item twice / removed once, intermediate object replaced, object under "
        "two keys, equal container reassigned, object moved) with random padding; classes whose untouched kids / byname / inst "
        "compute a DEFAULT from what the object already references (shape extra D: _kids_default -> [self.inst], "
        "_byname_default -> {'k0': self.inst}, _inst_default -> kids[0]) over 16 expressions, most with several paths "
        "reaching the same objects: links set first, a container or inst assigned (or given as constructor keyword) "
        "before its default was ever read, then reads and changes of every object involved, listeners, copies "
        "(impl + oracle only: the oracle recomputes on the live objects without materialising defaults); every history of length <= 2 "
        "(quick) / <= 3 (thorough) over 11-14 operations for 6 expressions x 3 shapes on a pool of 3; a fixed corpus. Non-trivial = the case produced a read, a getter call or a "
        "notification; distinct = distinct canonical output line")
TRUSTED = ["the observe machinery is a parameter of the model (`Env.fires`); the driver instantiates it with the "
           "from-scratch specification `firesSpec` and every run compares getter-call counts and notifications "
           "with the real code (validates `ObserveSound`/`ObserveTight` on the generated histories)",
           "results of container methods (new contents, event emitted or not) come in as data on the case line, "
           "computed by the generator's shadow from builtin list/dict/set semantics + the emission rule of "
           "TraitList/TraitDict/TraitSet (C05-C07); run_impl re-checks them against the real containers",
           "restore order of __getstate__/copyable_trait_names is class definition order (asserted in setup())",
           "translator propstate.py (ast/regex reader of has_traits.py and ctraits.c)",
           "translator propsrc.py (Python ast of _create_property_observe_state.handler and cached_property, tokenizer + "
           "recursive-descent reader of C trait_property_changed) and the semantics Model/PropL.lean gives to the "
           "translated terms (dict pop/get/set on the cache key, `is Undefined`, has_notifiers, call_notifiers)"]
ASSUMPTIONS = ["getters satisfy the user contract DependsOnly (a function of what the observed observables hold) and "
               "cannot distinguish ==-equal dependency values (comparison_mode equality suppresses such changes)",
               "changes made with notifications switched off (trait_setq, trait_set(trait_change_notify=False), "
               "__setstate__(.., trait_change_notify=False)) are outside the quantifier",
               "expressions of the path fragment a.b.leaf with notifying links only (':' links, filters, metadata, "
               "trait_added are C08/C15 territory)",
               "all traits are copied deep (Instance/List/Set default copy='deep'; byname declared copy='deep'), so "
               "copies are isomorphic graphs; copy.copy / clone_traits(copy='shallow') are not exercised",
               "dispatch='same' only"]
EXHAUSTIVE = {"quick": False, "thorough": False}
DISTINCT_BY_OUTPUT = False

EXPRS = ["v", "i.v", "k.v", "B", "i.k.v", "T", "b.v", "K", "I", "i.i.v", "k.k.v", "k.i.v", "i.b.v",
         "v+i.v", "k.v+B", "i.v+i.k.v", "T+k.v+I", "i.i.i.v", "b.b.v", "i.k.i.v",
         "Xi", "Xn", "Xe", "i.Xi", "k.Xi", "Xi+Xe", "b.Xn", "i.Xe",
         # several paths that reach the same objects
         "k.v+i.v", "b.v+i.v", "k.i.v+i.i.v", "k.v+b.v", "i.k.v+k.v",
         # a mapped dependency (the getter reads the shadow)
         "Xm", "i.Xm", "k.Xm", "Xm+v", "Xm+i.Xm"]
# with dynamic defaults returning shared objects (shape extra D)
DD_EXPRS = ["k.v+i.v", "b.v+i.v", "k.i.v+i.i.v", "k.v+b.v+i.v", "i.k.v+i.i.v", "k.v+I", "K+i.v", "B+i.v", "k.v+i.v+v",
            "k.v", "b.v", "i.v", "i.k.v", "k.i.v", "i.v+k.v", "i.i.v+k.i.v"]
# expressions in which a link can be reachable through itself (the F10 input class)
SELF_EXPRS = ["i.i.v", "k.k.v", "i.i.i.v", "b.b.v", "i.k.i.v", "i.i.v", "k.k.v"]
LINK_SLOT = {"i": "i", "k": "k", "b": "b"}
LEAF_SLOT = {"v": "v", "a": "a", "I": "i", "K": "k", "B": "b", "T": "t", "Xn": "xn", "Xi": "xi", "Xe": "xe", "Xm": "xm"}
OBS_LINK = {"i": "inst", "k": "kids.items", "b": "byname.items"}
OBS_LEAF = {"Xm": "xm", "Xn": "xn", "Xi": "xi", "Xe": "xe", "v": "value", "a": "aux", "I": "inst", "K": "kids.items", "B": "byname.items", "T": "tags.items"}
LEG_LINK = {"i": "inst", "k": "kids", "b": "byname"}
LEG_LEAF = {"Xm": "xm", "Xn": "xn", "Xi": "xi", "Xe": "xe", "v": "value", "a": "aux", "I": "inst", "K": "kids", "B": "byname", "T": "tags"}
# how the class hierarchy declares the property (the shape's expr / cached are the EFFECTIVE ones):
#   -   one class            bu  base: Property + plain getter, subclass overrides _get_p with @cached_property
#   b2  as bu, with an empty class in between      bc  base cached, subclass overrides with a plain getter
#   rd  base declares the property over another expression, the subclass redeclares it
INHERIT = ("-", "bu", "b2", "bc", "rd")
# Dependencies with a comparison mode: xn / xi / xe = Any(comparison_mode=none / identity / equality).
# The heap key of xn / xi is a code of the OBJECT held (index in LITS: equal-but-distinct objects differ), that of xe
# the ==-class of the value (index in EQ_REPS); a step token `c~r` assigns representative r of class c.
SCALARS = ("v", "a", "xn", "xi", "xe", "xm")
SCALAR_NAME = {"v": "value", "a": "aux", "xn": "xn", "xi": "xi", "xe": "xe", "xm": "xm"}
# xm = Map(XM_MAP): a MAPPED dependency; the getters read its shadow `xm_` (maintained by post_setattr), which is
# a function of the key assigned - the heap records the key
XM_MAP = {0: 100, 1: 101, 2: 102, 3: 103}
LITS = [None, 1, 1.0, True, (1, 2), (1.0, 2.0), 2, 2.0, "a"]
EQ_REPS = [[None], [1, 1.0, True], [(1, 2), (1.0, 2.0)], [2, 2.0], ["a"]]


def lit_code(x):
    """which literal: by type and repr (what a repr / type based getter distinguishes)"""
    for i, l in enumerate(LITS):
        if type(l) is type(x) and repr(l) == repr(x):
            return i
    raise AssertionError("unknown literal %r" % (x,))


def eq_class(x):
    for i, reps in enumerate(EQ_REPS):
        if type(x) is type(None) or type(reps[0]) is type(None):
            if x is None and reps[0] is None:
                return i
            continue
        if isinstance(x, str) != isinstance(reps[0], str) or isinstance(x, tuple) != isinstance(reps[0], tuple):
            continue
        if x == reps[0]:
            return i
    raise AssertionError("unknown value %r" % (x,))


def tok_key(tok):
    return int(str(tok).split("~")[0])


def tok_rep(tok):
    t = str(tok).split("~")
    return int(t[1]) if len(t) > 1 else 0


FAIL_EXCS = ["ValueError", "TraitError", "RuntimeError", "KeyError", "AttributeError"]
CACHE = "_traits_cache_p"


def parse_expr(e):
    out = []
    for p in e.split("+"):
        w = p.split(".")
        out.append(([LINK_SLOT[x] for x in w[:-1]], LEAF_SLOT[w[-1]]))
    return out


class Shape:
    def __init__(self, text):
        w = text.split()
        if len(w) == 10:
            w.append("-")
        if len(w) == 11:
            w.append("-")
        if w[11] == "-":
            self.text = " ".join(w[:11])        # (case lines written before `extras` existed stay canonical)
        else:
            self.text = " ".join(w)
        (self.expr, c, self.variant, sl, ra, rv, rp, self.getter, u, self.fail, self.inherit, self.extras) = w
        assert self.inherit in INHERIT and self.getter in "VSF"
        assert self.extras == "-" or set(self.extras) <= set("ADSTV"), self.extras
        # A: class-level `_anytrait_changed` listener.  D: dynamic defaults returning shared objects
        # (`_kids_default` -> [self.inst], `_byname_default` -> {'k0': self.inst}, `_inst_default` -> kids[0]) on
        # every pool object: the heap of an untouched object depends on when it is first read - outside the
        # model's vocabulary, implementation + oracle only
        self.any_static = "A" in self.extras
        # S / T: the property has a setter _set_p(self, value) / _set_p(self, name, value) writing the value to `value`
        # of the first object the first `...v` path selects (root.aux when no path ends in v); V: Property(Int, ...)
        self.set_n = 2 if "S" in self.extras else 3 if "T" in self.extras else None
        self.validated = "V" in self.extras
        self.dyn_defaults = "D" in self.extras
        self.cached, self.static, self.ra, self.rv, self.rp, self.undef = [x == "1" for x in (c, sl, ra, rv, rp, u)]
        self.legacy = self.variant == "l"
        self.paths = parse_expr(self.expr)
        for links, leaf in self.paths:
            if leaf == "v":
                self.set_path = links
                break
        else:
            self.set_path = None
        self.fail_k, self.fail_exc = (None, None)
        if self.fail != "-":
            k, e = self.fail.split(":")
            self.fail_k, self.fail_exc = int(k), e

    def class_key(self):
        return (self.expr, self.cached, self.variant, self.static, self.ra, self.rv, self.getter, self.undef, self.fail,
                self.inherit, self.extras)


# ---------------------------------------------------------------------------
# heaps as plain data: {id: {'v','a','i','k','b','t'}}  (shadow of the generator, snapshot of the oracle)
# ---------------------------------------------------------------------------

def blank_obj():
    return {"v": 0, "a": 0, "xn": 0, "xi": 0, "xe": 0, "xm": 0, "i": None, "k": [], "b": {}, "t": set()}


def h_targets(h, o, l):
    ob = h[o]
    if l == "i":
        return [] if ob["i"] is None else [ob["i"]]
    if l == "k":
        return list(ob["k"])
    return [ob["b"][k] for k in sorted(ob["b"])]


def h_content_str(h, o, slot):
    ob = h[o]
    if slot in SCALARS:
        return str(ob[slot])
    if slot == "i":
        return "N" if ob["i"] is None else "#%d" % ob["i"]
    if slot == "k":
        return "[" + ",".join(str(x) for x in ob["k"]) + "]"
    if slot == "b":
        return "{" + ",".join("%d:%d" % (k, ob["b"][k]) for k in sorted(ob["b"])) + "}"
    return "<" + ",".join(str(x) for x in sorted(ob["t"])) + ">"


def h_content_sum(h, o, slot):
    ob = h[o]
    if slot in SCALARS:
        return ob[slot]
    if slot == "i":
        return 0 if ob["i"] is None else ob["i"] + 1
    if slot == "k":
        return sum(x + 1 for x in ob["k"]) + 100 * len(ob["k"])
    if slot == "b":
        return sum(k * 7 + v + 1 for k, v in ob["b"].items())
    return sum(ob["t"]) + 100 * len(ob["t"])


def h_view(h, o, links, leaf):
    if not links:
        return h_content_str(h, o, leaf)
    l = links[0]
    return h_content_str(h, o, l) + "(" + " ".join(h_view(h, t, links[1:], leaf) for t in h_targets(h, o, l)) + ")"


def h_sum(h, o, links, leaf):
    if not links:
        return h_content_sum(h, o, leaf)
    return sum(h_sum(h, t, links[1:], leaf) for t in h_targets(h, o, links[0]))


def h_getter(h, shape, root=0):
    """The getter's *function*, evaluated on plain data (reference for the oracle)."""
    if shape.getter == "V":
        return "&".join(h_view(h, root, ls, lf) for ls, lf in shape.paths)
    t = sum(h_sum(h, root, ls, lf) for ls, lf in shape.paths)
    if shape.getter == "F":
        return FALSY_SHOWN[t % 5] if t % 5 < 4 else str(t)
    return "U" if (shape.undef and t % 5 == 3) else str(t)


FALSY_SHOWN = ["N", "0", "''", "[]"]


def falsy_value(t):
    """getter kind F: None, 0, '', [] are legitimate results (only Undefined means `nothing cached`)."""
    return [None, 0, "", []][t % 5] if t % 5 < 4 else str(t)


def h_matched_at(h, tgt, links, leaf, o):
    if not links:
        return tgt == (o, leaf)
    if tgt == (o, links[0]):
        return True
    return any(h_matched_at(h, tgt, links[1:], leaf, t) for t in h_targets(h, o, links[0]))


def h_matched(h, paths, tgt, root=0):
    return any(h_matched_at(h, tgt, ls, lf, root) for ls, lf in paths)


def h_self_reach(pre, post, paths, o, slot, root=0):
    """NoSelfReach fails: the mutated link (o, slot) is matched again below its own old / new value."""
    if slot not in ("i", "k", "b"):
        return False
    for links, leaf in paths:
        objs = [root]
        for k, l in enumerate(links):
            if l == slot and o in objs:
                rest = links[k + 1:]
                for hp in (pre, post):
                    for t in h_targets(hp, o, l):
                        if h_matched_at(hp, (o, slot), rest, leaf, t):
                            return True
            objs = [t for x in objs for t in h_targets(pre, x, l)]
    return False


def h_tree(h, paths, root=0):
    """No object is selected twice along a path, and no (object, final trait) is selected by two paths (legacy
    listeners agree with observe only then, C16: the user's handler is registered on the final trait once per
    object - `_on_trait_change` skips a handler that is already there - and the first path that lets go of the
    object removes it for the other path too)."""
    finals = []
    for links, leaf in paths:
        seen = [root]
        objs = [root]
        for l in links:
            objs = [t for x in objs for t in h_targets(h, x, l)]
            seen += objs
        if len(seen) != len(set(seen)):
            return False
        finals += [(o, leaf) for o in objs]
    return len(finals) == len(set(finals))


def h_root_reentrant(h, paths, root=0):
    """root.value is selected through at least one link."""
    for links, leaf in paths:
        if leaf != "v" or not links:
            continue
        objs = [root]
        for l in links:
            objs = [t for x in objs for t in h_targets(h, x, l)]
        if root in objs:
            return True
    return False


def h_set_target(h, shape, root=0):
    """(object, slot) the canonical setter writes, or None when the walk finds nothing"""
    if shape.set_path is None:
        return (root, "a")
    o = root
    for l in shape.set_path:
        ts = h_targets(h, o, l)
        if not ts:
            return None
        o = ts[0]
    return (o, "v")


def h_copy(h):
    return {o: {"v": ob["v"], "a": ob["a"], "xn": ob["xn"], "xi": ob["xi"], "xe": ob["xe"], "xm": ob["xm"], "i": ob["i"], "k": list(ob["k"]), "b": dict(ob["b"]), "t": set(ob["t"])}
            for o, ob in h.items()}


# ---------------------------------------------------------------------------
# container methods: the same token is applied to a plain container of ids (shadow) and to the real container
# ---------------------------------------------------------------------------

def parse_ids(s):
    s = s.strip()[1:-1].strip()
    return [int(x) for x in s.split(",")] if s else []


def parse_ids_n(s):
    """[1,N,2] -> [1, None, 2]"""
    s = s.strip()[1:-1].strip()
    return [None if x.strip() == "N" else int(x) for x in s.split(",")] if s else []


def show_ids_n(l):
    return "[" + ",".join("N" if x is None else str(int(x)) for x in l) + "]"


def show_ids(l):
    return "[" + ",".join(str(int(x)) for x in l) + "]"


def parse_dict(s):
    s = s.strip()[1:-1].strip()
    return dict((int(kv.split(":")[0]), int(kv.split(":")[1])) for kv in s.split(",")) if s else {}


def show_dict(d):
    return "{" + ",".join("%d:%d" % (k, d[k]) for k in sorted(d)) + "}"


def list_op(l, op, conv):
    """Apply `op` to list-like l.  Returns True when the TraitList emission rule says an event is emitted
    (trait_list_object.py: notify only `if removed or added`; __setitem__ / reverse / sort of a non-empty list always)."""
    p = op.split(":")
    k = p[0]
    before = list(l)
    if k == "append":
        l.append(conv(int(p[1])))
    elif k == "insert":
        l.insert(int(p[1]), conv(int(p[2])))
    elif k == "del":
        del l[int(p[1])]
    elif k == "set":
        l[int(p[1])] = conv(int(p[2]))
        return True
    elif k == "remove":
        l.remove(conv(int(p[1])))
    elif k == "pop":
        l.pop(int(p[1]))
    elif k == "clear":
        l.clear()
    elif k == "extend":
        l.extend([conv(x) for x in parse_ids(p[1])])
    elif k == "iadd":
        l += [conv(x) for x in parse_ids(p[1])]
    elif k == "reverse":
        l.reverse()
        return bool(before)
    elif k == "imul":
        l *= int(p[1])
    elif k == "slice":
        a, b = int(p[1]), int(p[2])
        new = [conv(x) for x in parse_ids(p[3])]
        removed = before[a:b]
        l[a:b] = new
        return bool(removed or new)
    elif k == "dslice":
        del l[int(p[1]):int(p[2])]
    else:
        raise AssertionError(op)
    return list(l) != before


def dict_op(d, op, kconv, vconv):
    """trait_dict_object.py: __setitem__ always notifies; update iff the argument is non-empty; the others iff changed."""
    p = op.split(":")
    k = p[0]
    before = dict(d)
    if k == "set":
        d[kconv(int(p[1]))] = vconv(int(p[2]))
        return True
    elif k == "del":
        del d[kconv(int(p[1]))]
    elif k == "pop":
        d.pop(kconv(int(p[1])))
    elif k == "popd":
        d.pop(kconv(int(p[1])), None)
    elif k == "clear":
        d.clear()
    elif k == "update":
        other = parse_dict(":".join(p[1:]))
        d.update(dict((kconv(a), vconv(b)) for a, b in other.items()))
        return bool(other)
    elif k == "setdefault":
        d.setdefault(kconv(int(p[1])), vconv(int(p[2])))
    else:
        raise AssertionError(op)
    return dict(d) != before


def set_op(s, op):
    """trait_set_object.py: every method notifies iff the contents changed."""
    p = op.split(":")
    k = p[0]
    before = set(s)
    arg = set(parse_ids(p[1])) if len(p) > 1 and p[1].startswith("[") else None
    if k == "add":
        s.add(int(p[1]))
    elif k == "discard":
        s.discard(int(p[1]))
    elif k == "remove":
        s.remove(int(p[1]))
    elif k == "clear":
        s.clear()
    elif k == "update":
        s.update(arg)
    elif k == "ior":
        s |= arg
    elif k == "isub":
        s -= arg
    elif k == "iand":
        s &= arg
    elif k == "ixor":
        s ^= arg
    elif k == "diffu":
        s.difference_update(arg)
    elif k == "symu":
        s.symmetric_difference_update(arg)
    else:
        raise AssertionError(op)
    return set(s) != before


# ---------------------------------------------------------------------------
# abstract steps <-> case lines.  A step is a tuple; container-method steps get their
# result and `emitted` flag from a shadow simulation (rebuild()).
# ---------------------------------------------------------------------------

def parse_write(w):
    k, _, v = w.partition("=")
    if k in ("v", "a", "xm"):
        return (k, int(v))
    if k in ("xn", "xi", "xe"):
        return (k, v)
    if k == "i":
        return (k, None if v == "N" else int(v))
    if k == "k":
        return (k, parse_ids(v))
    if k == "b":
        return (k, parse_dict(v))
    if k == "t":
        return (k, sorted(set(parse_ids(v))))
    raise AssertionError(w)


def show_write(w):
    k, v = w
    if k in ("v", "a", "xm"):
        return "%s=%d" % (k, v)
    if k in ("xn", "xi", "xe"):
        return "%s=%s" % (k, v)
    if k == "i":
        return "i=%s" % ("N" if v is None else v)
    if k == "k":
        return "k=" + show_ids(v)
    if k == "b":
        return "b=" + show_dict(v)
    return "t=" + show_ids(sorted(v))


def parse_step(s):
    """-> abstract step (derived result / emitted fields dropped)."""
    w = s.split()
    k = w[0]
    if k == "sv":
        return ("sv", int(w[1]), w[2], int(w[3]) if w[2] in ("v", "a", "xm") else w[3])
    if k == "si":
        return ("si", int(w[1]), None if w[2] == "N" else int(w[2]))
    if k == "sk":
        return ("sk", int(w[1]), parse_ids(w[2]))
    if k == "sb":
        return ("sb", int(w[1]), parse_dict(w[2]))
    if k == "st":
        return ("st", int(w[1]), sorted(set(parse_ids(w[2]))))
    if k in ("mk", "mb", "mt"):
        return (k, int(w[1]), w[2])
    if k in ("at", "dt"):
        # at / dt [kind]: t on_trait_change(h, 'p') | o observe(h, 'p') | n on_trait_change(h) (name-less,
        # object-level); no kind: t and o together
        assert len(w) == 1 or w[1] in ("t", "o", "n"), s
        return (k,) if len(w) == 1 else (k, w[1])
    if k == "rd":
        return (k,)
    if k == "mf":
        # mf o slot how [items]: a container call whose LAST item is rejected by the item / key / value trait
        #   k: ex extend | sl slice [0:0] | ia += | as assignment of the whole list   (rejected item: the int 5)
        #   b: uv update, bad value | uk update, bad key | as assignment of the whole dict
        #   t: up update | io |=   (items are ints; rejected item: the string 'bad')
        return ("mf", int(w[1]), w[2], w[3], parse_ids(w[4]))
    if k == "sp":
        return ("sp", w[1] if w[1] == "bad" else int(w[1]))
    if k == "dp":
        return ("dp",)
    if k == "uh":
        return ("uh", w[1], int(w[2]))
    if k == "uf":
        # uf <how> <o> <items>: how = ka (kids = items) | ke (kids.extend(items)) | ks (kids[0:0] = items)
        #                             | ba (byname = {i: item}) | bu (byname.update({i: item}))
        return ("uf", w[1], int(w[2]), parse_ids_n(w[3]))
    if k == "cp":
        return ("cp", w[1])
    if k == "K":
        return ("K", [parse_write(x) for x in w[1].split("/")] if len(w) > 1 else [])
    raise AssertionError(s)


def sh_write(ob, w):
    k, v = w
    if k == "k":
        ob["k"] = list(v)
    elif k == "b":
        ob["b"] = dict(v)
    elif k == "t":
        ob["t"] = set(v)
    elif k in ("xn", "xi", "xe"):
        ob[k] = tok_key(v)
    else:
        ob[k] = v


def rebuild(shape_text, n, steps):
    """Simulate the abstract steps on a shadow heap; returns (case_line, info)."""
    shape = Shape(shape_text)
    h = {o: blank_obj() for o in range(n)}
    out = []
    self_reach = False
    nontree = False
    late_reader_first = False
    unhookable = False
    for st in steps:
        k = st[0]
        pre = None
        tgt = None
        if k in ("sv", "si", "sk", "sb", "st", "mk", "mb", "mt"):
            pre = h_copy(h)
        if k == "sp":
            t = h_set_target(h, shape)
            if shape.set_n is not None and st[1] != "bad" and t is not None:
                h[t[0]][t[1]] = st[1]
            out.append("sp %s" % st[1])
        elif k == "mf":
            ob = h[st[1]]
            cur = show_ids(ob["k"]) if st[2] == "k" else show_dict(ob["b"]) if st[2] == "b" else show_ids(sorted(ob["t"]))
            out.append("mf %d %s %s %s %s" % (st[1], st[2], st[3], show_ids(st[4]), cur))
        elif k == "sv":
            h[st[1]][st[2]] = tok_key(st[3])
            out.append("sv %d %s %s" % (st[1], st[2], st[3]))
        elif k == "si":
            h[st[1]]["i"] = st[2]
            tgt = (st[1], "i")
            out.append("si %d %s" % (st[1], "N" if st[2] is None else st[2]))
        elif k == "sk":
            h[st[1]]["k"] = list(st[2])
            tgt = (st[1], "k")
            out.append("sk %d %s" % (st[1], show_ids(st[2])))
        elif k == "sb":
            h[st[1]]["b"] = dict(st[2])
            tgt = (st[1], "b")
            out.append("sb %d %s" % (st[1], show_dict(st[2])))
        elif k == "st":
            h[st[1]]["t"] = set(st[2])
            out.append("st %d %s" % (st[1], show_ids(sorted(st[2]))))
        elif k == "mk":
            l = h[st[1]]["k"]
            try:
                e = list_op(l, st[2], int)
            except (IndexError, ValueError):
                e = False
            tgt = (st[1], "k")
            out.append("mk %d %s %s %d" % (st[1], st[2], show_ids(l), e))
        elif k == "mb":
            d = h[st[1]]["b"]
            try:
                e = dict_op(d, st[2], int, int)
            except KeyError:
                e = False
            tgt = (st[1], "b")
            out.append("mb %d %s %s %d" % (st[1], st[2], show_dict(d), e))
        elif k == "mt":
            s = h[st[1]]["t"]
            try:
                e = set_op(s, st[2])
            except KeyError:
                e = False
            out.append("mt %d %s %s %d" % (st[1], st[2], show_ids(sorted(s)), e))
        elif k == "cp":
            out.append("cp %s" % st[1])
        elif k == "uh":
            # a value the downstream observers cannot be hooked to (None in a list / dict, an object without the
            # observed traits in `inst`) is stored and the statement raises: outside the model's vocabulary
            unhookable = True
            out.append("uh %s %d" % (st[1], st[2]))
        elif k == "uf":
            unhookable = True
            out.append("uf %s %d %s" % (st[1], st[2], show_ids_n(st[3])))
        elif k == "K":
            pre = h_copy(h)
            h[0] = blank_obj()
            for w in st[1]:
                mid = h_copy(h)
                sh_write(h[0], w)
                if w[0] in ("i", "k", "b") and h_self_reach(mid, h, shape.paths, 0, w[0]):
                    self_reach = True
            out.append("K " + "/".join(show_write(w) for w in st[1]) if st[1] else "K")
        else:
            out.append(" ".join(str(x) for x in st))
        if tgt is not None and h_self_reach(pre, h, shape.paths, tgt[0], tgt[1]):
            self_reach = True
        if not h_tree(h, shape.paths):
            nontree = True
        if shape.rp and h_root_reentrant(h, shape.paths):
            late_reader_first = True
    # (the reader attached with `at` is dispatched after the property's observer only when that observer sat on
    #  root.value before; when root.value becomes a dependency later - root reachable from itself - the order on
    #  that trait is registration order, which is C08's hook model, not this one)
    impl_only = self_reach or (shape.legacy and nontree) or late_reader_first or unhookable or shape.dyn_defaults
    line = "%s|%d|%s" % (shape.text, n, ";".join(out))
    return ("#" if impl_only else "") + line, {"self_reach": self_reach, "nontree": nontree}


def split_case(case):
    body = case[1:] if case.startswith("#") else case
    shape_text, n, steps = body.split("|")
    return shape_text.strip(), int(n), [s.strip() for s in steps.split(";") if s.strip()]


def normalise(case):
    shape_text, n, steps = split_case(case)
    return rebuild(shape_text, n, [parse_step(s) for s in steps])[0]


def shrink(case, fails):
    shape_text, n, steps = split_case(case)
    steps = [parse_step(s) for s in steps]

    def mk(sts):
        return rebuild(shape_text, n, sts)[0]
    changed = True
    while changed and len(steps) > 1:
        changed = False
        for i in range(len(steps) - 1, -1, -1):
            cand = steps[:i] + steps[i + 1:]
            if cand and fails(mk(cand)):
                steps = cand
                changed = True
    return mk(steps)


# ---------------------------------------------------------------------------
# the real classes
# ---------------------------------------------------------------------------

_CLASSES = {}
NODE_FIELDS = ["uid", "value", "aux", "xn", "xi", "xe", "xm", "inst", "kids", "byname", "tags"]


def _register(cls, name):
    cls.__module__ = __name__
    cls.__qualname__ = name
    cls.__name__ = name
    globals()[name] = cls
    return cls


def falsy_mode(case):
    """A replay-stable share of the cases runs on objects that are alive but FALSY (`__bool__` False / `__len__` 0):
    nothing in the statement depends on an object's truth value (guards against `if not obj:` for `is None`)."""
    import zlib
    return ("", "", "bool", "len")[zlib.crc32(case.lstrip("#").strip().encode()) % 4]


# Dynamic defaults that return objects the holder already references (shape extra `D`): what an untouched trait
# holds is decided when it is first read, and an assignment to a trait that was never read hands the observers the
# default, computed on the spot, as the old value (ctraits.c setattr_trait -> default_value_for).
def _dd_kids(self):
    i = self.__dict__.get("inst")
    return [i] if i is not None else []


def _dd_byname(self):
    i = self.__dict__.get("inst")
    return {"k0": i} if i is not None else {}


def _dd_inst(self):
    k = self.__dict__.get("kids")
    return k[0] if k else None


_DD = {"kids": _dd_kids, "byname": _dd_byname, "inst": _dd_inst}
_PEEK = [False]


def _get(o, name):
    """read a trait; while the oracle peeks, a dynamic default that was not materialised yet is computed without
    being stored (the oracle must not change when a default is first read)"""
    if _PEEK[0] and name in _DD and name not in o.__dict__ and getattr(type(o), "_c12_dd", False):
        return _DD[name](o)
    return getattr(o, name)


class peeking:
    def __enter__(self):
        _PEEK[0] = True

    def __exit__(self, *a):
        _PEEK[0] = False


def node_class(fv="", dd=False):
    if dd:
        fv = fv + "D"
    if "node" + fv in _CLASSES:
        return _CLASSES["node" + fv]
    from traits.api import Any, ComparisonMode, Dict, HasTraits, Instance, Int, List, Map, Set, Str

    class C12Node(HasTraits):
        uid = Int()
        value = Int()
        aux = Int()
        xn = Any(comparison_mode=ComparisonMode.none)
        xi = Any(comparison_mode=ComparisonMode.identity)
        xe = Any(comparison_mode=ComparisonMode.equality)
        xm = Map(dict(XM_MAP), default_value=0)
        inst = Instance(HasTraits)
        kids = List(Instance(HasTraits))
        byname = Dict(Str, Instance(HasTraits), copy="deep")
        tags = Set(Int)
    if dd:
        def mk(name):
            def default(self):
                r = _DD[name](self)
                # (the oracle tells a default computed for a read from one computed as the old value of an assignment)
                self.__dict__.setdefault("_c12_dflt", []).append((name, r))
                return r
            default.__name__ = "_%s_default" % name
            return default

        class C12Node(C12Node):
            _c12_dd = True
            _kids_default = mk("kids")
            _byname_default = mk("byname")
            _inst_default = mk("inst")
    if fv.startswith("bool"):
        C12Node.__bool__ = lambda self: False
    elif fv.startswith("len"):
        C12Node.__len__ = lambda self: 0
    _CLASSES["node" + fv] = _register(C12Node, "C12Node" + fv)
    return _CLASSES["node" + fv]


def bare_class():
    """a perfectly good HasTraits object without any of the observed traits"""
    if "bare" in _CLASSES:
        return _CLASSES["bare"]
    from traits.api import HasTraits, Int

    class C12Bare(HasTraits):
        weight = Int()
    _CLASSES["bare"] = _register(C12Bare, "C12Bare")
    return C12Bare


def _log(obj):
    d = obj.__dict__
    lg = d.get("_c12")
    if lg is None:
        lg = d["_c12"] = {"calls": 0, "static": [], "nested": [], "raised": 0, "anystatic": []}
    return lg


# getter functions over the REAL objects (what the user would write)
def _uid(x):
    """pool index of a node; N for a None slot, B for an object that is not a node (no uid / value / ...)"""
    if x is None:
        return "N"
    return x.uid if "uid" in x.trait_names() else "B"


def _is_node(o):
    return o is not None and "uid" in o.trait_names()


def r_targets(o, l):
    if not _is_node(o):
        return []
    if l == "i":
        i = _get(o, "inst")
        return [] if i is None else [i]
    if l == "k":
        return list(_get(o, "kids"))
    d = _get(o, "byname")
    return [d[k] for k in sorted(d)]


def r_content_str(o, slot):
    if not _is_node(o):
        return "~"
    if slot == "v":
        return str(o.value)
    if slot == "a":
        return str(o.aux)
    if slot in ("xn", "xi"):
        return str(lit_code(getattr(o, slot)))     # distinguishes 1 / 1.0 / True, (1, 2) / (1.0, 2.0) ...
    if slot == "xe":
        return str(eq_class(o.xe))                 # ... an equality-compared dependency must not be told apart
    if slot == "xm":
        return str(o.xm_ - 100)                    # the SHADOW of the mapped trait
    if slot == "i":
        i = _get(o, "inst")
        return "N" if i is None else "#%s" % _uid(i)
    if slot == "k":
        return "[" + ",".join(str(_uid(x)) for x in _get(o, "kids")) + "]"
    if slot == "b":
        d = _get(o, "byname")
        return "{" + ",".join("%s:%s" % (k[1:], _uid(d[k])) for k in sorted(d)) + "}"
    return "<" + ",".join(str(x) for x in sorted(o.tags)) + ">"


def _unum(x):
    u = _uid(x)
    return u + 1 if isinstance(u, int) else 50


def r_content_sum(o, slot):
    if not _is_node(o):
        return 0
    if slot == "v":
        return o.value
    if slot == "a":
        return o.aux
    if slot in ("xn", "xi"):
        return lit_code(getattr(o, slot))
    if slot == "xe":
        return eq_class(o.xe)
    if slot == "xm":
        return o.xm_ - 100
    if slot == "i":
        i = _get(o, "inst")
        return 0 if i is None else _unum(i)
    if slot == "k":
        kk = _get(o, "kids")
        return sum(_unum(x) for x in kk) + 100 * len(kk)
    if slot == "b":
        return sum(int(k[1:]) * 7 + _unum(v) for k, v in _get(o, "byname").items())
    return sum(o.tags) + 100 * len(o.tags)


def r_view(o, links, leaf):
    if not links:
        return r_content_str(o, leaf)
    return r_content_str(o, links[0]) + "(" + " ".join(r_view(t, links[1:], leaf) for t in r_targets(o, links[0])) + ")"


def r_sum(o, links, leaf):
    if not links:
        return r_content_sum(o, leaf)
    return sum(r_sum(t, links[1:], leaf) for t in r_targets(o, links[0]))


def root_class(shape, fv=""):
    key = shape.class_key() + (fv,)
    if key in _CLASSES:
        return _CLASSES[key]
    from traits.api import Property, Undefined, cached_property
    Node = node_class(fv, shape.dyn_defaults)
    paths = shape.paths
    from traits.api import Int as _Int
    targs = (_Int,) if shape.validated else ()
    # a computed property with a setter is declared transient (otherwise pickling / cloning would push the
    # getter's value - a string here - back through the setter); one without a setter is transient by itself
    tkw = {"transient": True} if shape.set_n is not None else {}
    if shape.legacy:
        dep = ",".join(".".join([LEG_LINK[x] for x in p.split(".")[:-1]] + [LEG_LEAF[p.split(".")[-1]]])
                       for p in shape.expr.split("+"))
        prop = Property(*targs, depends_on=dep, **tkw)
    else:
        obs = [".".join([OBS_LINK[x] for x in p.split(".")[:-1]] + [OBS_LEAF[p.split(".")[-1]]])
               for p in shape.expr.split("+")]
        prop = Property(*targs, observe=obs[0] if len(obs) == 1 else obs, **tkw)
    view = shape.getter == "V"
    undef = shape.undef
    fail_k = shape.fail_k
    fail_exc = shape.fail_exc

    falsy = shape.getter == "F"

    def plain(self):
        """the getter's function of the object's current state (no counter, no cache)"""
        if view:
            return "&".join(r_view(self, ls, lf) for ls, lf in paths)
        t = sum(r_sum(self, ls, lf) for ls, lf in paths)
        if falsy:
            return falsy_value(t)
        return Undefined if (undef and t % 5 == 3) else str(t)

    def getter(self):
        lg = _log(self)
        n = lg["calls"]
        lg["calls"] = n + 1
        if fail_k is not None and n == fail_k:
            lg["raised"] += 1
            raise S.exc_class(fail_exc)("getter fails on call %d" % n)
        return plain(self)
    getter.__name__ = "_get_p"

    def nested_read(self, who):
        lg = _log(self)
        now = plain(self)       # recomputation at the moment of the read (the state may be mid-restore)
        try:
            lg["nested"].append(("ok", self.p, who, now))
        except Exception as e:
            lg["nested"].append(("err", S.exc_name(e), who, now))
            raise

    def declare(expr_text):
        if shape.legacy:
            return Property(*targs, **tkw, depends_on=",".join(
                ".".join([LEG_LINK[x] for x in p.split(".")[:-1]] + [LEG_LEAF[p.split(".")[-1]]])
                for p in expr_text.split("+")))
        o = [".".join([OBS_LINK[x] for x in p.split(".")[:-1]] + [OBS_LEAF[p.split(".")[-1]]])
             for p in expr_text.split("+")]
        return Property(*targs, observe=o[0] if len(o) == 1 else o, **tkw)

    set_path = shape.set_path

    def do_set(self, value):
        if set_path is None:
            self.aux = value
            return
        o = self
        for l in set_path:
            ts = r_targets(o, l)
            if not ts:
                return
            o = ts[0]
        o.value = value

    def base_getter(self):          # must never run on an instance of the final class
        return "BASE"
    base_getter.__name__ = "_get_p"
    mine = cached_property(getter) if shape.cached else getter
    meta = type(Node)
    uniq = len(_CLASSES)
    inh = shape.inherit
    if inh == "-":
        parent, body = Node, {"p": prop, "_get_p": mine}
    elif inh in ("bu", "b2"):
        assert shape.cached
        parent = _register(meta("C12Base_%d" % uniq, (Node,), {"p": declare(shape.expr), "_get_p": base_getter}),
                           "C12Base_%d" % uniq)
        if inh == "b2":
            parent = _register(meta("C12Mid_%d" % uniq, (parent,), {}), "C12Mid_%d" % uniq)
        body = {"_get_p": mine}
    elif inh == "bc":
        assert not shape.cached
        parent = _register(meta("C12Base_%d" % uniq, (Node,), {"p": declare(shape.expr),
                                                                "_get_p": cached_property(base_getter)}),
                           "C12Base_%d" % uniq)
        body = {"_get_p": mine}
    else:   # rd: the base class observes something else
        other = "T" if shape.expr != "T" else "v"
        parent = _register(meta("C12Base_%d" % uniq, (Node,), {"p": declare(other),
                                                                "_get_p": cached_property(base_getter)}),
                           "C12Base_%d" % uniq)
        body = {"p": declare(shape.expr), "_get_p": mine}
    if shape.static:
        def _p_changed(self, old, new):
            _log(self)["static"].append((old, new))
        body["_p_changed"] = _p_changed
    if shape.set_n == 2:
        def _set_p(self, value):
            do_set(self, value)
        body["_set_p"] = _set_p
    elif shape.set_n == 3:
        def _set_p(self, name, value):
            assert name == "p"
            do_set(self, value)
        body["_set_p"] = _set_p
    if shape.any_static:
        def _anytrait_changed(self, name, old, new):
            if name == "p":
                _log(self)["anystatic"].append((old, new))
        body["_anytrait_changed"] = _anytrait_changed
    if shape.ra:
        def _aux_changed(self):
            nested_read(self, "ra")
        body["_aux_changed"] = _aux_changed
    if shape.rv:
        def _value_changed(self):
            nested_read(self, "rv")
        body["_value_changed"] = _value_changed
    name = "C12Root_%d" % uniq
    cls = meta(name, (parent,), body)
    cls._c12_nested_read = nested_read
    cls._c12_plain = plain
    _CLASSES[key] = _register(cls, name)
    return cls


def setup():
    from traits.api import push_exception_handler
    from traits.observation.api import push_exception_handler as obs_push
    push_exception_handler(handler=lambda *a: None, reraise_exceptions=False, main=True)
    obs_push(handler=lambda event: None, reraise_exceptions=False)
    Node = node_class()
    n = Node()
    order = [x for x in n.copyable_trait_names() if x in NODE_FIELDS]
    state = [x for x in n.__getstate__() if x in NODE_FIELDS]
    assert order == NODE_FIELDS and state == NODE_FIELDS, (order, state)


# ---------------------------------------------------------------------------
# running a case on the real code
# ---------------------------------------------------------------------------

def show_val(v):
    from traits.api import Undefined
    if v is Undefined:
        return "U"
    if v is None:
        return "N"
    if isinstance(v, str) and v == "":
        return "''"
    return str(v)


def snapshot(pool):
    """Deep snapshot of the real state as plain data (reads every trait of every pool object)."""
    uid = {id(o): i for i, o in enumerate(pool)}
    h = {}
    for i, o in enumerate(pool):
        h[i] = {"v": o.value, "a": o.aux, "xn": lit_code(o.xn), "xi": lit_code(o.xi), "xe": eq_class(o.xe), "xm": o.xm, "i": None if o.inst is None else uid.get(id(o.inst), -1),
                "k": [uid.get(id(x), -1) for x in o.kids],
                "b": dict((int(k[1:]), uid.get(id(v), -1)) for k, v in o.byname.items()),
                "t": set(o.tags)}
    return h


def _pairs(l):
    return "^".join("%s>%s" % (show_val(a), show_val(b)) for a, b in l)


def _fmt(read, calls, nested, static, otc, obs, anyl, anystatic):
    return "%s c%d x[%s] s[%s] t[%s] o[%s] n[%s] y[%s]" % (
        read, calls, "^".join(show_val(v) if t == "ok" else "!" + v for t, v, _, _ in nested),
        _pairs(static), _pairs(otc), _pairs(obs), _pairs(anyl), _pairs(anystatic))


def _clear_logs(lg, R):
    del lg["static"][:]
    del lg["nested"][:]
    del lg["anystatic"][:]
    del R.otc[:]
    del R.obs[:]
    del R.anyl[:]


def _receivers(shape, R, lg):
    """(name, notifications received in this step, listener present?) for every kind of listener"""
    return (("static", list(lg["static"]), shape.static), ("_anytrait_changed", list(lg["anystatic"]), shape.any_static),
            ("on_trait_change", list(R.otc), "t" in R.kinds), ("observe", list(R.obs), "o" in R.kinds),
            ("on_trait_change(no name)", list(R.anyl), "n" in R.kinds))


def _hit(sig, what, **kw):
    d = {"signature": sig, "what": what}
    d.update(kw)
    return d


class Run:
    def __init__(self, shape, n, fv=""):
        self.shape = shape
        Node = node_class(fv, shape.dyn_defaults)
        self.cls = root_class(shape, fv)
        self.pool = [self.cls(uid=0)] + [Node(uid=i) for i in range(1, n)]
        self.kinds = set()       # dynamic listeners attached: t / o / n
        self.anyl = []
        self._h_any = lambda obj, name, old, new: self.anyl.append((old, new)) if name == "p" else None
        # the objects assigned for the codes (equal-but-distinct: their identity matters for xi)
        self.lits = list(LITS)
        self.otc = []
        self.obs = []
        self._h_otc = lambda obj, name, old, new: self.otc.append((old, new))
        self._h_obs = lambda event: self.obs.append((event.old, event.new))
        self._h_post = lambda event: self.cls._c12_nested_read(event.object, "rp")

    @property
    def root(self):
        return self.pool[0]

    @property
    def attached(self):
        """a trait-level dynamic listener on the property (model: St.dyn)"""
        return bool(self.kinds & {"t", "o"})

    def listeners(self):
        """any listener the property's notifications are delivered to"""
        return bool(self.shape.static or self.shape.any_static or self.kinds)

    def attach(self, kinds="to"):
        r = self.root
        was = self.attached
        for k in kinds:
            if k in self.kinds:
                continue
            if k == "t":
                r.on_trait_change(self._h_otc, "p")
            elif k == "o":
                r.observe(self._h_obs, "p")
            else:
                r.on_trait_change(self._h_any)
            self.kinds.add(k)
        # the late reader comes and goes with the trait-level listeners
        if self.shape.rp and self.attached and not was:
            r.observe(self._h_post, "value")

    def detach(self, kinds="to"):
        r = self.root
        was = self.attached
        for k in kinds:
            if k not in self.kinds:
                continue
            if k == "t":
                r.on_trait_change(self._h_otc, "p", remove=True)
            elif k == "o":
                r.observe(self._h_obs, "p", remove=True)
            else:
                r.on_trait_change(self._h_any, remove=True)
            self.kinds.discard(k)
        if self.shape.rp and was and not self.attached:
            r.observe(self._h_post, "value", remove=True)

    def copy(self, kind):
        pool = self.pool
        if kind == "p":
            new = _pickle.loads(_pickle.dumps(pool))
        elif kind == "d":
            new = _copy.deepcopy(pool)
        else:
            memo = {}
            new = [pool[0].clone_traits(memo=memo)]
            for o in pool[1:]:
                new.append(_copy.deepcopy(o, memo))
        self.pool = new
        self.kinds = set()
        # the copies hold copies of the literals (pickle: new floats / tuples): a code now stands for the object
        # that is held, so that assigning the same code again is again `the identical object`
        for o in new:
            for f in ("xn", "xi"):
                v = getattr(o, f)
                self.lits[lit_code(v)] = v

    def construct(self, writes):
        kw = {}
        for k, v in writes:
            kw[{"v": "value", "a": "aux", "xn": "xn", "xi": "xi", "xe": "xe", "xm": "xm", "i": "inst", "k": "kids", "b": "byname",
                "t": "tags"}[k]] = self.conv(k, v)
        self.pool[0] = self.cls(uid=0, **kw)
        self.kinds = set()

    def conv(self, k, v, holder=None):
        pool = self.pool
        if k == "i":
            return None if v is None else pool[v]
        if k == "k":
            return [pool[x] for x in v]
        if k == "b":
            return dict(("k%d" % a, pool[b]) for a, b in v.items())
        if k == "t":
            return set(v)
        if k in ("xn", "xi"):
            # `the same code again` must be `the identical object` on THIS holder: after a pickle round trip two
            # holders of the same code hold distinct (equal) objects - floats and tuples are not memoised
            if holder is not None:
                cur = getattr(holder, k)
                if lit_code(cur) == tok_key(v):
                    return cur
            return self.lits[tok_key(v)]
        if k == "xe":
            return EQ_REPS[tok_key(v)][tok_rep(v) % len(EQ_REPS[tok_key(v)])]
        return v


def run_impl(case):
    shape_text, n, steps = split_case(case)
    shape = Shape(shape_text)
    fv = falsy_mode(case)
    R = Run(shape, n, fv)
    hits = []
    tags = set(["expr:" + shape.expr, "variant:" + shape.variant, "cached:%d" % shape.cached,
                "getter:" + shape.getter + ("u" if shape.undef else "")])
    if case.startswith("#"):
        tags.add("impl-only")
    if shape.fail_k is not None:
        tags.add("getter-fails")
    tags.add("inherit:" + shape.inherit)
    tags.add("objects:" + (fv and "falsy-" + fv or "truthy"))
    for f in ("static", "ra", "rv", "rp"):
        if getattr(shape, f):
            tags.add("shape:" + f)
    if shape.dyn_defaults:
        return run_impl_defaults(R, shape, steps, tags)
    outs = []
    cached = shape.cached
    # oracle state
    interval_runs = 0        # getter runs since the last relevant change (cached properties)
    interval_exempt = False  # a run in this interval raised / returned Undefined / preceded the invalidation
    self_reach_seen = False
    nontree_seen = False
    failed_hookup_seen = False
    suffix = None

    def klass():
        if self_reach_seen:
            return "mutated-link-reachable-through-itself"
        kind = "multi-path" if len(shape.paths) > 1 else "nested-path" if shape.paths[0][0] else "own-trait"
        return ("legacy-depends_on:" if shape.legacy else "observe:") + kind

    MISSED = ("stale-cache", "stale-read", "stale-nested-read", "not-announced", "announced-wrong-new",
              "announced-wrong-old")

    def sig(symptom):
        # legacy listeners skip an object that is already listened to and drop it on the first removal (C16):
        # every symptom on a shared / repeated item is that one defect
        if shape.legacy and nontree_seen:
            return "legacy-depends_on:shared-or-repeated-item"
        # F10: once a link was re-pointed while its owner was reachable through it, hooks are misplaced;
        # all symptoms of a missed change are one signature, all symptoms of a spurious call another
        # a hook-up that failed half way (un-hookable value among other items) was rolled back with the old hooks
        # already gone: every later symptom of a missed change is that one defect
        if failed_hookup_seen and symptom in MISSED:
            return "stale-after-failed-hookup:" + klass()
        if self_reach_seen and symptom in MISSED:
            return "stale-cache:mutated-link-reachable-through-itself"
        if self_reach_seen and symptom in ("spurious-recompute", "announced-twice"):
            return "spurious-recompute:mutated-link-reachable-through-itself"
        return symptom + ":" + klass()

    degraded = False
    for stext in steps:
        st = parse_step(stext)
        k = st[0]
        tags.add(k if k not in ("mk", "mb", "mt") else k + ":" + st[2].split(":")[0])
        root = R.root
        lg = _log(root)
        if k in ("uh", "uf") or degraded:
            # From the first un-hookable value on, the heap is outside the plain-data vocabulary: the oracle
            # recomputes the getter's function on the live object (plain(): no counter, no cache) instead.
            # Statement checked: the cache entry / every read is the recomputation; a change that alters it is
            # announced with the recomputed value.  The exception the statement raises is tolerated (the store
            # has taken effect: that part is C09/C19's subject).
            degraded = True
            plain = R.cls._c12_plain
            before = show_val(plain(root))
            pre_raised = lg["raised"]
            _clear_logs(lg, R)
            read = "-"
            try:
                if k == "uh":
                    o = R.pool[st[2]]
                    if st[1] == "k":
                        o.kids.append(None)
                    elif st[1] == "b":
                        o.byname["k9"] = None
                    else:
                        o.inst = bare_class()(weight=3)
                elif k == "uf":
                    o = R.pool[st[2]]
                    items = [None if x is None else R.pool[x] for x in st[3]]
                    how = st[1]
                    if how == "ka":
                        o.kids = items
                    elif how == "ke":
                        o.kids.extend(items)
                    elif how == "ks":
                        o.kids[0:0] = items
                    elif how == "ba":
                        o.byname = dict(("k%d" % i, x) for i, x in enumerate(items))
                    else:
                        o.byname.update(dict(("k%d" % i, x) for i, x in enumerate(items)))
                elif k == "sv":
                    setattr(R.pool[st[1]], SCALAR_NAME[st[2]], R.conv(st[2], st[3], R.pool[st[1]]))
                elif k == "rd":
                    try:
                        read = show_val(root.p)
                    except Exception as e:
                        read = "!" + S.exc_name(e)
                elif k == "at":
                    R.attach(*st[1:])
                elif k == "dt":
                    R.detach(*st[1:])
                else:
                    return "bad-case step after uh: %s" % stext, [], ["bad-case"]
            except Exception as e:
                read = "!!" + S.exc_name(e)
                tags.add("unhookable-raises:" + S.exc_name(e) if k in ("uh", "uf") else "raises-after-unhookable")
                if k == "uf":
                    # the un-hookable value was not the last thing to hook: the failed hook-up is rolled back
                    failed_hookup_seen = True
                    tags.add("failed-hookup-rolled-back")
                if k not in ("uh", "uf"):
                    hits.append(_hit(sig("mutation-raises"), "`%s` raised %s" % (stext, type(e).__name__), step=stext))
            after = show_val(plain(root))
            nested = list(lg["nested"])
            outs.append(_fmt(read, lg["calls"], nested, lg["static"], R.otc, R.obs, R.anyl, lg["anystatic"]))
            entry = root.__dict__.get(CACHE, None)
            if CACHE in root.__dict__ and show_val(entry) != after:
                hits.append(_hit(sig("stale-cache"), "cache entry differs from recomputation after `%s`" % stext,
                                 cached_value=show_val(entry), recomputed=after, step=stext))
            if k == "rd" and not read.startswith("!") and read != after:
                hits.append(_hit(sig("stale-read"), "read differs from recomputation", read=read, recomputed=after,
                                 step=stext))
            for t, v, who, now in nested:
                if t == "ok" and show_val(v) != show_val(now):
                    hits.append(_hit("ordering:sibling-handler-reads-before-invalidation" if not shape.legacy
                                     else sig("stale-nested-read"), "a handler read the property during the "
                                     "dispatch and got a value computed before the change", seen=show_val(v),
                                     recomputed=show_val(now), step=stext))
            if before != after and R.listeners() and lg["raised"] == pre_raised:
                for name, got, present in _receivers(shape, R, lg):
                    if not present:
                        continue
                    if not got:
                        hits.append(_hit(sig("not-announced"), "0 notifications to the %s listener for a change "
                                         "that alters the value" % name, step=stext, recomputed=after))
                    elif show_val(got[-1][1]) != after:
                        hits.append(_hit(sig("announced-wrong-new"), "notification carries new=%s, recomputed %s"
                                         % (show_val(got[-1][1]), after), step=stext, listener=name))
            continue
        pre = snapshot(R.pool)
        pre_calls = lg["calls"]
        pre_raised = lg["raised"]
        pre_cache = root.__dict__.get(CACHE, None)
        pre_has_cache = CACHE in root.__dict__
        _clear_logs(lg, R)
        read = "-"
        emitted = None
        tgt = None
        fresh = False
        mut_exc = None
        if k == "sv":
            tgt = (st[1], st[2])
        elif k in ("si", "sk", "sb", "st"):
            tgt = (st[1], k[1])
        if k == "mf":
            # Statement: a container call that raises because an item is rejected leaves the container as it was
            # (C05-C07) - in any case the cache / the next read is the recomputation and, if the value changed,
            # the listeners are told (checked below like any other change of that container)
            o = R.pool[st[1]]
            items = [R.pool[i] for i in st[4]] if st[2] != "t" else list(st[4])
            bad = "bad" if st[2] == "t" else 5
            tags.add("rejected-call:%s:%s" % (st[2], st[3]))
            try:
                if st[2] == "k":
                    seq = items + [bad]
                    if st[3] == "ex":
                        o.kids.extend(seq)
                    elif st[3] == "sl":
                        o.kids[0:0] = seq
                    elif st[3] == "ia":
                        o.kids += seq
                    else:
                        o.kids = seq
                elif st[2] == "b":
                    d = dict(("k%d" % (20 + j), x) for j, x in enumerate(items))
                    if st[3] == "uk":
                        d[5] = R.pool[0]
                    else:
                        d["k99"] = bad
                    if st[3] == "as":
                        o.byname = d
                    else:
                        o.byname.update(d)
                else:
                    seq = items + [bad]
                    if st[3] == "up":
                        o.tags.update(seq)
                    else:
                        o.tags |= set(seq)
                read = "accepted"
            except Exception as e:
                if S.exc_name(e) != "TraitError":
                    mut_exc = e
            tgt = (st[1], st[2])
        if k in ("sp", "dp"):
            # a set / delete through the property itself.  Statement: a deletion, a value the declared type or the
            # setter rejects, and a set of a read-only property raise TraitError and change nothing; an accepted
            # set is the dependency write its setter performs (checked like any other change below)
            tags.add("set:" + ("delete" if k == "dp" else "bad" if st[1] == "bad" else "value")
                     + (":readonly" if shape.set_n is None else ":arity%d" % shape.set_n)
                     + (":validated" if shape.validated else ""))
            wt = h_set_target(pre, shape)
            must_fail = k == "dp" or shape.set_n is None or (st[1] == "bad" and (shape.validated or wt is not None))
            set_exc = None
            try:
                if k == "dp":
                    del root.p
                else:
                    root.p = "bad" if st[1] == "bad" else st[1]
            except Exception as e:
                set_exc = e
            if set_exc is not None:
                read = "!!" + S.exc_name(set_exc)
            if must_fail != (set_exc is not None) or (set_exc is not None and S.exc_name(set_exc) != "TraitError"):
                hits.append(_hit("set-outcome:" + ("must-raise" if must_fail else "must-not-raise"),
                                 "`%s` %s" % (stext, "raised %s" % type(set_exc).__name__ if set_exc else "did not raise"),
                                 step=stext))
            if set_exc is None and wt is not None:
                tgt = wt
            elif snapshot(R.pool) != pre or (pre_has_cache and CACHE not in root.__dict__):
                hits.append(_hit("rejected-set-changed-state", "`%s` was rejected / had nothing to write but the "
                                 "state or the cache changed" % stext, step=stext))
        try:
            if k == "sv":
                setattr(R.pool[st[1]], SCALAR_NAME[st[2]], R.conv(st[2], st[3], R.pool[st[1]]))
            elif k == "si":
                R.pool[st[1]].inst = R.conv("i", st[2])
            elif k == "sk":
                R.pool[st[1]].kids = R.conv("k", st[2])
            elif k == "sb":
                R.pool[st[1]].byname = R.conv("b", st[2])
            elif k == "st":
                R.pool[st[1]].tags = set(st[2])
        except Exception as e:      # an assignment of a valid value never raises in the model
            mut_exc = e
        if k in ("mk", "mb", "mt"):
            w = stext.split()
            expect, emitted = w[3], w[4] == "1"
            o = R.pool[st[1]]
            try:
                if k == "mk":
                    list_op(o.kids, st[2], lambda i: R.pool[i])
                elif k == "mb":
                    dict_op(o.byname, st[2], lambda i: "k%d" % i, lambda i: R.pool[i])
                else:
                    set_op(o.tags, st[2])
            except (IndexError, ValueError, KeyError):
                tags.add("container-op-raises")
            except Exception as e:  # raised by a notifier, after the container was changed
                mut_exc = e
            tgt = (st[1], {"mk": "k", "mb": "b", "mt": "t"}[k])
            now = snapshot(R.pool)[st[1]]
            got = show_ids(now["k"]) if k == "mk" else show_dict(now["b"]) if k == "mb" else show_ids(sorted(now["t"]))
            if got != expect:
                return "shadow-mismatch %s: expected %s got %s" % (stext, expect, got), [], ["shadow-mismatch"]
        if mut_exc is not None:
            read = "!!" + S.exc_name(mut_exc)
        if k == "rd":
            try:
                read = show_val(root.p)
            except Exception as e:
                read = "!" + S.exc_name(e)
                tags.add("read-raises")
        elif k == "at":
            R.attach(*st[1:])
        elif k == "dt":
            R.detach(*st[1:])
        elif k == "cp":
            R.copy(st[1])
            fresh = True
        elif k == "K":
            R.construct(st[1])
            fresh = True
        root = R.root
        lg = _log(root)
        post = snapshot(R.pool)
        calls = lg["calls"]
        nested = list(lg["nested"])
        static = list(lg["static"])
        otc, obs = list(R.otc), list(R.obs)
        receivers = _receivers(shape, R, lg)
        outs.append(_fmt(read, calls, nested, static, otc, obs, R.anyl, lg["anystatic"]))

        # ------------------------------------------------------------------ oracle
        # (statement-level; uses only the real objects' observations and plain-data snapshots)
        ref = h_getter(post, shape)
        if tgt is not None and tgt[1] in ("i", "k", "b") and h_self_reach(pre, post, shape.paths, tgt[0], tgt[1]):
            self_reach_seen = True
        if not h_tree(post, shape.paths):
            nontree_seen = True
        raised_now = lg["raised"] - (0 if fresh else pre_raised)
        if mut_exc is not None:
            hits.append(_hit(sig("mutation-raises"), "`%s` raised %s (%s) out of the assignment / container method"
                             % (stext, type(mut_exc).__name__, str(mut_exc)[:80]), step=stext))
        # (a) never stale: the cache entry, and every value read, is the getter's function of the current state
        entry = root.__dict__.get(CACHE, None)
        if CACHE in root.__dict__ and show_val(entry) != ref:
            hits.append(_hit(sig("stale-cache"), "cache entry differs from recomputation after `%s`" % stext,
                             cached_value=show_val(entry), recomputed=ref, step=stext))
        if k == "rd" and not read.startswith("!") and read != ref:
            hits.append(_hit(sig("stale-read"), "read differs from recomputation",
                             read=read, recomputed=ref, step=stext))
        # (b) values seen by sibling handlers during the dispatch
        for t, v, who, now in nested:
            if t == "ok" and show_val(v) != show_val(now):
                # a handler that runs before the property's own observer: the static ones always do; one attached
                # later does when the property's observer reached this trait even later (after a link change).
                # (were the invalidation missing altogether, the entry would still be stale after the step: (a))
                pre_sibling = not shape.legacy
                hits.append(_hit("ordering:sibling-handler-reads-before-invalidation" if pre_sibling
                                 else sig("stale-nested-read"),
                                 "a handler on the changed trait read the property during the dispatch and got a "
                                 "value computed before the change", seen=show_val(v), recomputed=show_val(now), step=stext))
        if otc != obs and {"t", "o"} <= R.kinds:
            hits.append(_hit(sig("handlers-disagree"), "on_trait_change and observe handlers on the property "
                             "received different notifications", otc=str(otc), obs=str(obs), step=stext))
        if fresh:
            interval_runs, interval_exempt = 0, False
            continue
        ran = calls - pre_calls
        if tgt is not None:
            # comparison_mode none: every assignment is a change; otherwise the heap key (object code for
            # identity, ==-class for equality) differs
            notifying = emitted if emitted is not None else (
                tgt[1] == "xn" or h_content_str(pre, tgt[0], tgt[1]) != h_content_str(post, tgt[0], tgt[1]))
            if emitted is False and h_content_str(pre, tgt[0], tgt[1]) != h_content_str(post, tgt[0], tgt[1]):
                return "shadow-mismatch silent change %s" % stext, [], ["shadow-mismatch"]
            relevant = notifying and h_matched(pre, shape.paths, tgt)
            pre_reader = (not shape.legacy) and tgt[0] == 0 and ((shape.rv and tgt[1] == "v") or (shape.ra and tgt[1] == "a"))
            listeners = R.listeners()
            if listeners:
                tags.add("listeners:" + "+".join(sorted(nm for nm, _, pr in receivers if pr)))
            tags.add("relevant" if relevant else "irrelevant")
            if relevant:
                tags.add("fires:" + ("cache" if pre_has_cache else "nocache") + (":listeners" if listeners else ""))
                interval_runs, interval_exempt = 0, False
                if pre_reader:
                    interval_exempt = True
            else:
                # a change that is not relevant must not alter the computed value (user contract sanity) ...
                if h_getter(pre, shape) != ref:
                    return "harness-exception getter not DependsOnly %s" % stext, [], ["harness-exception"]
                # ... and must not invalidate or notify
                if (pre_has_cache and CACHE not in root.__dict__) or any(got for _, got, _ in receivers):
                    hits.append(_hit(sig("spurious-recompute"),
                                     "a change of an observable the expression does not select dropped the cache "
                                     "entry / notified", step=stext, static=str(static), otc=str(otc)))
            # (d) announces
            # (a getter returning the Undefined sentinel is outside the contract: legacy `notify` does not announce
            #  when the dropped entry held Undefined)
            undef_entry = pre_has_cache and show_val(pre_cache) == "U"
            if h_getter(pre, shape) != ref and listeners and not raised_now and not (shape.legacy and undef_entry):
                for name, got, present in receivers:
                    if not present:
                        continue
                    if len(got) != 1:
                        hits.append(_hit(sig("not-announced") if not got else sig("announced-twice"),
                                         "%d notifications to the %s listener for a change that alters the value"
                                         % (len(got), name), step=stext, recomputed=ref))
                        continue
                    old, new = got[0]
                    if show_val(new) != ref:
                        hits.append(_hit(sig("announced-wrong-new"), "notification carries new=%s, recomputed %s"
                                         % (show_val(new), ref), step=stext, listener=name))
                    if cached and not pre_reader:
                        want = show_val(pre_cache) if pre_has_cache else ("N" if shape.legacy else "U")
                        if show_val(old) != want:
                            hits.append(_hit(sig("announced-wrong-old"), "notification carries old=%s, the "
                                             "dropped cache entry was %s" % (show_val(old), want), step=stext,
                                             listener=name))
        # (c) at most one getter run between two relevant changes (cached, total, non-Undefined getters)
        if raised_now or ref == "U" or (pre_has_cache and show_val(pre_cache) == "U"):
            interval_exempt = True
        interval_runs += ran
        if cached and not interval_exempt and interval_runs > 1:
            hits.append(_hit(sig("spurious-recompute"), "the getter ran %d times since the last relevant change"
                             % interval_runs, step=stext))
            interval_exempt = True
    # legacy depends_on on a shared / repeated item (only the corpus case gets here): outside C12's statement,
    # recorded in the evidence distribution, never an oracle hit
    if any(h["signature"] == "legacy-depends_on:shared-or-repeated-item" for h in hits):
        hits = [h for h in hits if h["signature"] != "legacy-depends_on:shared-or-repeated-item"]
        tags.add("observation:legacy-depends_on-stale-on-shared-or-repeated-item")
    return " ; ".join(outs), hits, tags


def run_impl_defaults(R, shape, steps, tags):
    """Shape extra `D` (dynamic defaults returning shared objects; implementation + oracle only).  The heap is not
    plain data here (what an untouched trait holds depends on when it is first read), so the oracle recomputes the
    getter's function on the live objects WITHOUT materialising defaults (peeking) and checks: the cache entry and
    every read equal the recomputation; a change that alters the value while everything the getter reads is
    materialised is announced to every listener with the recomputed value."""
    hits, outs = [], []
    plain = R.cls._c12_plain
    tags.add("dynamic-defaults")
    old_default_seen = False
    mat_ok = False          # everything the getter reads was materialised when the previous step ended

    def peek():
        with peeking():
            return show_val(plain(R.root))

    def kind():
        return "multi-path" if len(shape.paths) > 1 else "nested-path" if shape.paths[0][0] else "own-trait"

    def sig(symptom):
        # an assignment to a never-read `inst` handed the maintainer a default old value that is hooked through
        # another path: its hooks are taken away (known finding); every later missed change is that defect
        if old_default_seen and symptom in ("stale-cache", "stale-read", "not-announced", "announced-wrong-new"):
            return "stale-after-unset-default-unhooked:shared-with-another-path"
        return symptom + ":observe:" + kind()

    for stext in steps:
        st = parse_step(stext)
        k = st[0]
        tags.add(k if k not in ("mk", "mb", "mt") else k + ":" + st[2].split(":")[0])
        root = R.root
        lg = _log(root)
        before = peek()
        pre_raised, pre_calls = lg["raised"], lg["calls"]
        pre_has_cache = CACHE in root.__dict__
        _clear_logs(lg, R)
        for o in R.pool:
            o.__dict__.pop("_c12_dflt", None)
        read = "-"
        fresh = False
        try:
            if k == "sv":
                setattr(R.pool[st[1]], SCALAR_NAME[st[2]], R.conv(st[2], st[3], R.pool[st[1]]))
            elif k == "si":
                R.pool[st[1]].inst = R.conv("i", st[2])
            elif k == "sk":
                R.pool[st[1]].kids = R.conv("k", st[2])
            elif k == "sb":
                R.pool[st[1]].byname = R.conv("b", st[2])
            elif k == "st":
                R.pool[st[1]].tags = set(st[2])
            elif k in ("mk", "mb", "mt"):
                o = R.pool[st[1]]
                try:
                    if k == "mk":
                        list_op(o.kids, st[2], lambda i: R.pool[i])
                    elif k == "mb":
                        dict_op(o.byname, st[2], lambda i: "k%d" % i, lambda i: R.pool[i])
                    else:
                        set_op(o.tags, st[2])
                except (IndexError, ValueError, KeyError):
                    tags.add("container-op-raises")
            elif k == "rd":
                try:
                    read = show_val(root.p)
                except Exception as e:
                    read = "!" + S.exc_name(e)
            elif k == "at":
                R.attach(*st[1:])
            elif k == "dt":
                R.detach(*st[1:])
            elif k == "cp":
                R.copy(st[1])
                fresh = True
            elif k == "K":
                R.construct(st[1])
                fresh = True
            else:
                return "bad-case step with dynamic defaults: %s" % stext, [], ["bad-case"]
        except Exception as e:
            read = "!!" + S.exc_name(e)
            hits.append(_hit(sig("mutation-raises"), "`%s` raised %s (%s)" % (stext, type(e).__name__, str(e)[:80]),
                             step=stext))
        root = R.root
        lg = _log(root)
        # a default computed as the OLD value of an assignment (not stored): an `inst` default is an object
        for o in R.pool:
            for name, r in o.__dict__.pop("_c12_dflt", []):
                if name == "inst" and r is not None and o.__dict__.get("inst") is not r:
                    old_default_seen = True
                    tags.add("unset-default-as-old-value:object")
                elif name != "inst" and r and o.__dict__.get(name) is not r:
                    tags.add("unset-default-as-old-value:container")
        after = peek()
        nested = list(lg["nested"])
        receivers = _receivers(shape, R, lg)
        outs.append(_fmt(read, lg["calls"], nested, lg["static"], R.otc, R.obs, R.anyl, lg["anystatic"]))
        entry = root.__dict__.get(CACHE, None)
        if CACHE in root.__dict__ and show_val(entry) != after:
            hits.append(_hit(sig("stale-cache"), "cache entry differs from recomputation after `%s`" % stext,
                             cached_value=show_val(entry), recomputed=after, step=stext))
        if k == "rd" and not read.startswith("!") and read != after:
            hits.append(_hit(sig("stale-read"), "read differs from recomputation", read=read, recomputed=after,
                             step=stext))
        if (not fresh and before != after and mat_ok and R.listeners() and lg["raised"] == pre_raised
                and k not in ("rd", "at", "dt")):
            for name, got, present in receivers:
                if not present:
                    continue
                if not got:
                    hits.append(_hit(sig("not-announced"), "0 notifications to the %s listener for a change that "
                                     "alters the value" % name, step=stext, recomputed=after))
                elif show_val(got[-1][1]) != after:
                    hits.append(_hit(sig("announced-wrong-new"), "notification carries new=%s, recomputed %s"
                                     % (show_val(got[-1][1]), after), step=stext, listener=name))
        ran_ok = lg["calls"] > (0 if fresh else pre_calls) and lg["raised"] == (0 if fresh else pre_raised)
        mat_ok = (CACHE in root.__dict__) or ran_ok
    return " ; ".join(outs), hits, tags


def nontrivial(case, out):
    return (" c0 " not in out.split(" ; ")[-1]) or "rd" in case


# ---------------------------------------------------------------------------
# generator
# ---------------------------------------------------------------------------

def random_shape(rng, legacy=None, exprs=None):
    expr = rng.choice(exprs or EXPRS)
    if legacy is None:
        legacy = rng.random() < 0.12
    cached = rng.random() < 0.82
    r = rng.random()
    getter = "V" if r < 0.6 else "S" if r < 0.8 else "F"
    undef = getter == "S" and rng.random() < 0.25
    fail = "-"
    if rng.random() < 0.1:
        fail = "%d:%s" % (rng.randint(0, 4), rng.choice(FAIL_EXCS))
    inherit = "-"
    if rng.random() < 0.3:
        inherit = rng.choice(["bu", "b2", "rd"] if cached else ["bc", "rd"])
    text = "%s %d %s %d %d %d %d %s %d %s %s" % (
        expr, cached, "l" if legacy else "o", rng.random() < 0.3, rng.random() < 0.2, rng.random() < 0.2,
        rng.random() < 0.2, getter, undef, fail, inherit)
    extras = ""
    if rng.random() < 0.12:
        extras += "A"         # class-level _anytrait_changed
    if rng.random() < 0.3:
        extras += rng.choice("SST")     # a setter of arity 2 / 3
    if rng.random() < 0.1:
        extras += "V"         # Property(Int, ...)
    if extras:
        text += " " + extras
    return text


def listener_step(rng, kinds):
    """attach / detach one kind of dynamic listener (or t and o together); `kinds` = the set attached so far"""
    r = rng.random()
    if r < 0.45:
        on = not ({"t", "o"} <= kinds)
        kinds |= {"t", "o"} if on else set()
        if not on:
            kinds -= {"t", "o"}
        return ("at",) if on else ("dt",)
    k = "n" if r < 0.75 else rng.choice("to")
    if k in kinds:
        kinds.discard(k)
        return ("dt", k)
    kinds.add(k)
    return ("at", k)


ALL_SLOTS = ["v", "a", "i", "k", "b", "t", "xn", "xi", "xe", "xm"]


def slots_of(paths):
    s = set()
    for links, leaf in paths:
        s.update(links)
        s.add(leaf)
    return sorted(s)


def reachable(h, paths):
    out = [0]
    for links, _ in paths:
        objs = [0]
        for l in links:
            objs = [t for x in objs for t in h_targets(h, x, l)]
            out += objs
    return sorted(set(out))


def unhookable_tail(rng, shape, h, n):
    """Store a value the downstream observers cannot be hooked to (the statement raises after the store), then
    read and change every object that is still selected."""
    reach = reachable(h, shape.paths)
    links = sorted(set(l for ls, _ in shape.paths for l in ls)) or ["i", "k", "b"]
    o = rng.choice(reach)
    slot = rng.choice(links) if rng.random() < 0.85 else rng.choice("ikb")
    tail = [("rd",)] if rng.random() < 0.7 else []
    tail.append(("uh", slot, o))
    for _ in range(rng.randint(1, 5)):
        r = rng.random()
        if r < 0.5:
            tail.append(("rd",))
        elif r < 0.9:
            tail.append(("sv", rng.choice(reach) if rng.random() < 0.8 else rng.randrange(n), "v", rng.randint(0, 9)))
        else:
            tail.append(rng.choice([("at",), ("at",), ("at", "n"), ("at", "o")]))
    tail.append(("rd",))
    return tail


def failed_hookup_history(rng):
    """The un-hookable value is NOT the last thing to hook: list literal / extend / slice assignment with None
    first or in the middle, dict with a None value among others - single nested paths through kids / byname
    (impl + oracle only)."""
    expr = rng.choice(["k.v", "k.i.v", "b.v", "i.k.v", "i.b.v", "k.k.v"])
    r = rng.random()
    getter = "V" if r < 0.7 else "S"
    shape_text = "%s %d o %d 0 0 0 %s 0 - %s" % (expr, rng.random() < 0.85, rng.random() < 0.4, getter,
                                                  rng.choice(["-", "-", "bu"]) )
    shape = Shape(shape_text)
    if not shape.cached and shape.inherit == "bu":
        shape_text = shape_text[:-2] + "-"
        shape = Shape(shape_text)
    links = shape.paths[0][0]
    n = 5
    steps = []
    owner = 0
    free = [1, 2, 3, 4]
    rng.shuffle(free)
    depth = 0
    while links[depth] == "i":        # walk down to the container link
        nxt = free.pop()
        steps.append(("si", owner, nxt))
        owner = nxt
        depth += 1
    l = links[depth]
    a, b = free.pop(), free.pop()
    if rng.random() < 0.5:
        steps.append(("sk", owner, [a]) if l == "k" else ("sb", owner, {7: a}))
    if rng.random() < 0.6:
        steps.append(("at",))
    steps += [("sv", a, "v", rng.randint(1, 9)), ("rd",)]
    items = rng.choice([[a, None, b], [None, a], [None, a, b], [a, None, a], [b, None]])
    how = rng.choice(["ka", "ke", "ks"]) if l == "k" else rng.choice(["ba", "bu"])
    steps.append(("uf", how, owner, items))
    for x in rng.sample([a, b, a, b], rng.randint(2, 4)):
        steps += [("sv", x, "v", rng.randint(10, 19))] + ([("rd",)] if rng.random() < 0.7 else [])
    steps.append(("rd",))
    return rebuild(shape_text, n, steps)[0]


def defaults_history(rng):
    """Classes whose untouched kids / byname / inst compute a default from what the object already references
    (shape extra D): links set first, a container assigned before its default was ever read, then a read and
    changes of every object involved; random listeners, copies, constructions and padding around that."""
    expr = rng.choice(DD_EXPRS)
    cached = rng.random() < 0.85
    shape_text = "%s %d o %d 0 0 0 %s 0 - - %s" % (expr, cached, rng.random() < 0.3, rng.choice("VVS"),
                                                    "AD" if rng.random() < 0.1 else "D")
    n = 5
    pool = [1, 2, 3, 4]
    rng.shuffle(pool)
    a, b, c, d = pool
    steps = []
    kinds = set()

    def touch():
        x = rng.choice([a, a, b, c, d, 0])
        r = rng.random()
        if r < 0.7:
            return ("sv", x, "v", rng.randint(1, 9))
        if r < 0.85:
            return ("si", x, rng.choice([a, b, c, d, None]))
        return rng.choice([("mk", x, "append:%d" % rng.choice(pool)), ("mb", x, "set:%d:%d" % (rng.randint(0, 2),
                                                                                               rng.choice(pool))),
                           ("sk", x, [rng.choice(pool) for _ in range(rng.randint(0, 2))])])
    if rng.random() < 0.25:
        steps.append(listener_step(rng, kinds))
    r = rng.random()
    if r < 0.2:
        # constructor keywords (assigned in the order given)
        ws = [("i", a)] + ([("k", [b])] if rng.random() < 0.7 else [("b", {1: b})])
        if rng.random() < 0.3:
            ws.reverse()
        steps.append(("K", ws))
    else:
        first = [("si", 0, a)]
        if rng.random() < 0.5:
            first.append(("si", a, c))              # a deeper link of the shared object
        if rng.random() < 0.15:
            first.append(("rd",))                   # (the defaults are read first: nothing special happens)
        second = [rng.choice([("sk", 0, [b]), ("sk", 0, [b, a]), ("sb", 0, {1: b}), ("sk", 0, []), ("sb", 0, {}),
                              ("mk", 0, "append:%d" % b)])]
        if rng.random() < 0.3:
            second.append(rng.choice([("sb", 0, {2: b}), ("sk", 0, [d])]))
        steps += (first + second) if rng.random() < 0.85 else (second + first)
    if rng.random() < 0.3:
        steps.append(("si", b, d))
    steps.append(("rd",))
    for _ in range(rng.randint(2, 7)):
        r = rng.random()
        if r < 0.55:
            steps.append(touch())
        elif r < 0.85:
            steps.append(("rd",))
        elif r < 0.93:
            steps.append(listener_step(rng, kinds))
        else:
            steps.append(("cp", rng.choice("pcd")))
            kinds.clear()
    steps += [("sv", a, "v", rng.randint(10, 19)), ("rd",), ("sv", c, "v", rng.randint(10, 19)), ("rd",)]
    return rebuild(shape_text, n, steps)[0]


def random_history(rng, legacy=None, maxsteps=15, allow_self=0.06, tree=None, exprs=None, unhookable=0.06):
    shape_text = random_shape(rng, legacy, exprs)
    shape = Shape(shape_text)
    n = rng.randint(3, 5) if not shape.legacy else rng.randint(4, 6)
    h = {o: blank_obj() for o in range(n)}
    rel_slots = slots_of(shape.paths)
    steps = []
    copies = 0
    # legacy depends_on is compared on tree-shaped graphs only (shared / repeated items are C16's excluded
    # territory and outside C12's statement, which speaks about observe dependencies): a step that would make
    # the graph non-tree is not generated
    tree_mode = shape.legacy if tree is None else tree

    def referenced():
        r = set()
        for ob in h.values():
            if ob["i"] is not None:
                r.add(ob["i"])
            r.update(ob["k"])
            r.update(ob["b"].values())
        return r

    def pick_target(o):
        """an object id to link to from o"""
        if tree_mode:
            free = [x for x in range(1, n) if x not in referenced() and x != o]
            if free:
                return rng.choice(free)
        cands = list(range(1, n)) if rng.random() > allow_self else list(range(n))
        return rng.choice(cands)

    def rand_ids(o, lo=0, hi=3):
        return [pick_target(o) for _ in range(rng.randint(lo, hi))]

    def mutation():
        if rng.random() < (0.12 if shape.set_n is not None else 0.015):
            # through the property's own setter (a read-only property, a rejected value and `del` raise)
            r = rng.random()
            return ("dp",) if r < 0.08 else ("sp", "bad") if r < 0.2 else ("sp", rng.randint(0, 9))
        reach = reachable(h, shape.paths)
        o = rng.choice(reach) if rng.random() < 0.75 else rng.randrange(n)
        slot = rng.choice(rel_slots) if rng.random() < 0.75 else rng.choice(ALL_SLOTS)
        ob = h[o]
        if slot in ("xn", "xi"):
            # equal-but-distinct objects (1 / 1.0 / True, (1, 2) / (1.0, 2.0), 2 / 2.0), the same object again
            cur = ob[slot]
            r = rng.random()
            if r < 0.15:
                return ("sv", o, slot, str(cur))
            if r < 0.65:
                same = [i for i, l in enumerate(LITS) if l is not None and LITS[cur] is not None
                        and not isinstance(l, str) and not isinstance(LITS[cur], str) and l == LITS[cur] and i != cur]
                if same:
                    return ("sv", o, slot, str(rng.choice(same)))
            return ("sv", o, slot, str(rng.randrange(len(LITS))))
        if slot == "xe":
            cur = ob[slot]
            c = cur if rng.random() < 0.5 else rng.randrange(len(EQ_REPS))
            return ("sv", o, slot, "%d~%d" % (c, rng.randrange(len(EQ_REPS[c]))))
        if slot in ("v", "a"):
            v = ob[slot] if rng.random() < 0.12 else rng.randint(0, 9)
            return ("sv", o, slot, v)
        if slot == "xm":
            return ("sv", o, slot, ob[slot] if rng.random() < 0.12 else rng.randint(0, 3))
        if slot == "i":
            r = rng.random()
            t = None if r < 0.15 else ob["i"] if r < 0.25 else pick_target(o)
            return ("si", o, t)
        if slot in ("k", "b", "t") and rng.random() < 0.07:
            # a call whose last item is rejected (raises; earlier items of the same call must not stay behind)
            how = {"k": ["ex", "sl", "ia", "as"], "b": ["uv", "uv", "uk", "as"], "t": ["up", "io"]}[slot]
            items = rand_ids(o, 1, 2) if slot != "t" else [rng.randint(0, 5) for _ in range(rng.randint(1, 2))]
            return ("mf", o, slot, rng.choice(how), items)
        if slot == "k":
            l = ob["k"]
            r = rng.random()
            if r < 0.2:
                new = list(l) if rng.random() < 0.25 else rand_ids(o)
                return ("sk", o, new)
            m = len(l)
            t = pick_target(o)
            if m and rng.random() < 0.3:
                t = rng.choice(l)       # duplicates
            if m >= 2 and rng.random() < 0.25:
                # same length, same set of objects, other multiplicities (or another order)
                new = [rng.choice(l) for _ in l]
                if set(new) != set(l):
                    new[:len(set(l))] = sorted(set(l))
                return ("mk", o, "slice:0:%d:%s" % (m, show_ids(new)))
            ops = ["append:%d" % t, "append:%d" % t, "insert:%d:%d" % (rng.randint(-1, m + 1), t),
                   "extend:%s" % show_ids(rand_ids(o, 0, 2)), "iadd:%s" % show_ids(rand_ids(o, 0, 2)),
                   "remove:%d" % t, "reverse", "imul:%d" % rng.choice([0, 1, 2, 2]), "clear",
                   "slice:%d:%d:%s" % (rng.randint(0, m), rng.randint(0, m + 1), show_ids(rand_ids(o, 0, 2)))]
            if m:
                i = rng.randrange(m)
                ops += ["del:%d" % i, "del:%d" % i, "set:%d:%d" % (i, t), "set:%d:%d" % (i, l[i]), "pop:%d" % i,
                        "remove:%d" % rng.choice(l), "dslice:%d:%d" % (rng.randint(0, m), rng.randint(0, m + 1)),
                        "pop:-1"]
            else:
                ops += ["del:0", "pop:0"]
            op = rng.choice(ops)
            if op.startswith("imul:2") and m > 4:
                op = "imul:1"
            return ("mk", o, op)
        if slot == "b":
            d = ob["b"]
            r = rng.random()
            if r < 0.2:
                new = dict(d) if rng.random() < 0.25 else dict((rng.randint(0, 3), pick_target(o))
                                                                  for _ in range(rng.randint(0, 3)))
                return ("sb", o, new)
            key = rng.randint(0, 3)
            t = pick_target(o)
            ops = ["set:%d:%d" % (key, t), "set:%d:%d" % (key, t), "del:%d" % key, "pop:%d" % key, "popd:%d" % key,
                   "clear", "setdefault:%d:%d" % (key, t),
                   "update:%s" % show_dict(dict((rng.randint(0, 3), pick_target(o)) for _ in range(rng.randint(0, 2))))]
            if d:
                k0 = rng.choice(sorted(d))
                ops += ["set:%d:%d" % (k0, d[k0]), "set:%d:%d" % (k0, t), "del:%d" % k0]
            return ("mb", o, rng.choice(ops))
        s = ob["t"]
        r = rng.random()
        if r < 0.2:
            new = sorted(s) if rng.random() < 0.25 else sorted(set(rng.randint(0, 5) for _ in range(rng.randint(0, 3))))
            return ("st", o, new)
        x = rng.randint(0, 5)
        arg = show_ids(sorted(set(rng.randint(0, 5) for _ in range(rng.randint(0, 3)))))
        ops = ["add:%d" % x, "add:%d" % x, "discard:%d" % x, "remove:%d" % x, "clear", "update:" + arg, "ior:" + arg,
               "isub:" + arg, "iand:" + arg, "ixor:" + arg, "diffu:" + arg, "symu:" + arg]
        return ("mt", o, rng.choice(ops))

    def apply_shadow(st):
        k = st[0]
        try:
            if k == "sv":
                h[st[1]][st[2]] = tok_key(st[3])
            elif k == "si":
                h[st[1]]["i"] = st[2]
            elif k == "sk":
                h[st[1]]["k"] = list(st[2])
            elif k == "sb":
                h[st[1]]["b"] = dict(st[2])
            elif k == "st":
                h[st[1]]["t"] = set(st[2])
            elif k == "mk":
                list_op(h[st[1]]["k"], st[2], int)
            elif k == "mb":
                dict_op(h[st[1]]["b"], st[2], int, int)
            elif k == "mt":
                set_op(h[st[1]]["t"], st[2])
            elif k == "K":
                h[0] = blank_obj()
                for w in st[1]:
                    sh_write(h[0], w)
            elif k == "sp":
                t = h_set_target(h, shape)
                if shape.set_n is not None and st[1] != "bad" and t is not None:
                    h[t[0]][t[1]] = st[1]
        except (IndexError, ValueError, KeyError):
            pass

    nsteps = rng.randint(1, maxsteps)
    if rng.random() < 0.2:
        # construct the root with keyword arguments (observers are installed before they are assigned)
        ws = []
        for slot in rng.sample(ALL_SLOTS, rng.randint(0, 6)):
            if slot in ("v", "a"):
                ws.append((slot, rng.randint(0, 9)))
            elif slot == "xm":
                ws.append((slot, rng.randint(0, 3)))
            elif slot in ("xn", "xi"):
                ws.append((slot, str(rng.randrange(len(LITS)))))
            elif slot == "xe":
                c = rng.randrange(len(EQ_REPS))
                ws.append((slot, "%d~%d" % (c, rng.randrange(len(EQ_REPS[c])))))
            elif slot == "i":
                ws.append(("i", rng.choice([None] + list(range(1, n)))))
            elif slot == "k":
                ws.append(("k", [rng.randrange(1, n) for _ in range(rng.randint(0, 3))]))
            elif slot == "b":
                ws.append(("b", dict((rng.randint(0, 3), rng.randrange(1, n)) for _ in range(rng.randint(0, 2)))))
            else:
                ws.append(("t", sorted(set(rng.randint(0, 5) for _ in range(rng.randint(0, 3))))))
        st = ("K", ws)
        saved = h_copy(h)
        apply_shadow(st)
        if shape.legacy and not h_tree(h, shape.paths):
            h.clear()
            h.update(saved)
        else:
            steps.append(st)
    kinds = set()
    while len(steps) < nsteps:
        r = rng.random()
        if r < 0.60:
            st = mutation()
        elif r < 0.84:
            st = ("rd",)
        elif r < 0.90:
            st = listener_step(rng, kinds)
        elif r < 0.98 and copies < 2:
            st = ("cp", rng.choice("pcd"))
            copies += 1
            kinds.clear()
        else:
            st = ("rd",)
        if shape.legacy:
            saved = h_copy(h)
            apply_shadow(st)
            if not h_tree(h, shape.paths):
                h.clear()
                h.update(saved)
                st = ("rd",)
            steps.append(st)
            continue
        steps.append(st)
        apply_shadow(st)
    if rng.random() < 0.7:
        steps.append(("rd",))
    if not shape.legacy and rng.random() < unhookable:
        steps += unhookable_tail(rng, shape, h, n)
    return rebuild(shape_text, n, steps)[0]


def motif_history(rng):
    """Scripted cores (the paths the property's statement names) with random shape, padding and copies:
    item present twice then removed once; intermediate object replaced, the old one changed afterwards;
    the same object under two dict keys; equal container reassigned then mutated in place; object moved
    between two parents."""
    nested = [e for e in EXPRS if "." in e.split("+")[0]]
    shape_text = random_shape(rng, legacy=False, exprs=nested)
    shape = Shape(shape_text)
    links = shape.paths[0][0]
    n = 5
    steps = []
    # reach the owner of the link we play with
    depth = rng.randrange(len(links))
    owner = 0
    free = [1, 2, 3, 4]
    rng.shuffle(free)

    def assign(o, l, ts):
        if l == "i":
            return ("si", o, ts[0] if ts else None)
        if l == "k":
            return ("sk", o, list(ts))
        return ("sb", o, dict((i, t) for i, t in enumerate(ts)))
    for d in range(depth):
        nxt = free.pop()
        steps.append(assign(owner, links[d], [nxt]))
        owner = nxt
    l = links[depth]
    a, b = free.pop(), free.pop()
    below = links[depth + 1:]

    def touch(t):
        """a change below t that is relevant iff t is selected"""
        if not below:
            return [("sv", t, "v", rng.randint(1, 9))]
        c = free[0] if free else a
        return [assign(t, below[0], [c]), ("sv", c, "v", rng.randint(1, 9))] if rng.random() < 0.6 else \
            [assign(t, below[0], [c])]
    rd = [("rd",)]
    kind = rng.choice(["dup-remove", "replace", "two-keys", "equal-reassign", "move", "multiplicity", "multiplicity"])
    if kind == "multiplicity" and l == "k":
        # repeated items; a same-length slice assignment keeps the set of objects but changes how often each
        # occurs (or only the order); one occurrence removed; then every object still in the list changes
        start = rng.choice([[a, a, b], [a, b, a], [a, b, b], [a, a, b, b], [a, b]])
        new = [rng.choice([a, b]) for _ in start]
        if set(new) != {a, b}:
            new[0], new[-1] = a, b
        steps += [("sk", owner, start) if rng.random() < 0.5 else ("mk", owner, "extend:%s" % show_ids(start))] + rd
        steps += [("mk", owner, "slice:0:%d:%s" % (len(start), show_ids(new)))] + rd
        steps += [("mk", owner, rng.choice(["pop:-1", "pop:0", "del:0", "del:-1", "remove:%d" % a,
                                             "remove:%d" % b, "dslice:0:1"]))] + rd
        steps += touch(b) + rd + touch(a) + rd
        steps += [("mk", owner, rng.choice(["reverse", "pop:-1", "slice:0:1:%s" % show_ids([b])]))] + touch(b) + rd \
            + touch(a) + rd
    elif kind == "dup-remove" and l == "k":
        steps += [("mk", owner, "append:%d" % a), ("mk", owner, "append:%d" % a)] + rd + touch(a) + rd
        steps += [("mk", owner, rng.choice(["del:0", "remove:%d" % a, "pop:-1", "pop:0", "dslice:0:1"]))] + rd
        steps += touch(a) + rd + [("mk", owner, rng.choice(["del:0", "clear", "remove:%d" % a]))] + touch(a) + rd
    elif kind in ("multiplicity", "two-keys", "replace") and l == "b" and rng.random() < 0.6:
        # a key set again to the identical object it holds / update(dict(d)), the value under one or two keys,
        # as often as it has keys (and once more); then every value still present changes
        keys = [0, 1] if rng.random() < 0.5 else [0]
        cur = dict((kk, a) for kk in keys)
        if rng.random() < 0.5:
            cur[2] = b
        steps += [("sb", owner, dict(cur))] if rng.random() < 0.5 else \
            [("mb", owner, "set:%d:%d" % (kk, v)) for kk, v in sorted(cur.items())]
        steps += rd
        for _ in range(len(keys) + rng.randint(0, 1)):
            steps += [rng.choice([("mb", owner, "set:%d:%d" % (rng.choice(keys), a)),
                                  ("mb", owner, "update:%s" % show_dict(cur)),
                                  ("mb", owner, "update:%s" % show_dict(dict((kk, a) for kk in keys)))])]
            steps += rd if rng.random() < 0.5 else []
        steps += rd + touch(a) + rd + (touch(b) + rd if 2 in cur else [])
        steps += [("mb", owner, "del:%d" % keys[0])] + touch(a) + rd
    elif kind in ("dup-remove", "two-keys") and l == "b":
        steps += [("mb", owner, "set:0:%d" % a), ("mb", owner, "set:1:%d" % a)] + rd + touch(a) + rd
        steps += [("mb", owner, rng.choice(["del:0", "pop:1", "set:0:%d" % b, "update:{1:%d}" % b]))] + rd
        steps += touch(a) + rd + [("mb", owner, "clear")] + touch(a) + rd
    elif kind == "equal-reassign" and l != "i":
        steps += [assign(owner, l, [a])] + rd + [assign(owner, l, [a])]
        steps += [("mk", owner, "append:%d" % b) if l == "k" else ("mb", owner, "set:5:%d" % b)] + rd + touch(b) + rd
    elif kind == "move":
        other = free.pop() if free else b
        steps += [assign(owner, l, [a])] + touch(a) + rd + [assign(owner, l, [b])] + rd
        steps += [assign(other, l, [a])] + touch(a) + rd + touch(b) + rd
    else:   # replace the intermediate object, then change the old one, then the new one
        steps += [assign(owner, l, [a])] + touch(a) + rd
        steps += [rng.choice([assign(owner, l, [b])] + ([("mk", owner, "set:0:%d" % b)] if l == "k" else [])
                             + ([("mb", owner, "set:0:%d" % b)] if l == "b" else []))] + rd
        steps += touch(a) + rd + touch(b) + rd
    # random padding: listeners, copies, an extra irrelevant change
    out = []
    kinds = set()
    for st in steps:
        r = rng.random()
        if r < 0.06:
            out.append(listener_step(rng, kinds))
        elif r < 0.10:
            out.append(("cp", rng.choice("pcd")))
            kinds.clear()
        elif r < 0.16:
            out.append(("sv", rng.randrange(n), "a", rng.randint(0, 9)))
        out.append(st)
    if rng.random() < 0.15:
        h = {o: blank_obj() for o in range(n)}
        out += unhookable_tail(rng, shape, h, n)[:-1] + [("sv", owner, "v", rng.randint(1, 9)), ("rd",)]
    return rebuild(shape_text, n, out)[0]


SMALL_ALPHABETS = {
    "i.v": [("si", 0, None), ("si", 0, 1), ("si", 0, 2), ("si", 1, 2), ("sv", 0, "v", 1), ("sv", 1, "v", 1),
            ("sv", 2, "v", 1), ("sv", 1, "v", 0), ("rd",), ("at", "n"), ("at",), ("cp", "p")],
    "k.v": [("sk", 0, [1]), ("sk", 0, [1, 1]), ("sk", 0, [2, 1]), ("sk", 0, []), ("mk", 0, "append:1"),
            ("mk", 0, "append:2"), ("mk", 0, "del:0"), ("mk", 0, "remove:1"), ("mk", 0, "set:0:1"),
            ("sv", 1, "v", 1), ("sv", 2, "v", 1), ("rd",), ("at", "n"), ("at",), ("cp", "c")],
    "i.k.v": [("si", 0, 1), ("si", 0, 2), ("si", 0, None), ("mk", 1, "append:2"), ("mk", 1, "append:1"),
              ("mk", 2, "append:1"), ("mk", 1, "del:0"), ("sk", 1, [2, 2]), ("sv", 1, "v", 1), ("sv", 2, "v", 1),
              ("rd",), ("at", "n"), ("cp", "d")],
    "b.v": [("sb", 0, {0: 1}), ("sb", 0, {0: 1, 1: 1}), ("sb", 0, {}), ("mb", 0, "set:0:1"), ("mb", 0, "set:1:1"),
            ("mb", 0, "set:0:2"), ("mb", 0, "del:0"), ("mb", 0, "pop:1"), ("sv", 1, "v", 1), ("sv", 2, "v", 1),
            ("mf", 0, "b", "uv", [2]), ("rd",), ("at", "n"), ("at",)],
    "v+i.v": [("sv", 0, "v", 1), ("sv", 0, "v", 0), ("sv", 0, "a", 1), ("si", 0, 1), ("si", 0, None), ("si", 0, 0),
              ("sv", 1, "v", 1), ("rd",), ("at", "n"), ("at",), ("dt",), ("cp", "p")],
    "Xi": [("sv", 0, "xi", "1"), ("sv", 0, "xi", "2"), ("sv", 0, "xi", "3"), ("sv", 0, "xi", "4"), ("sv", 0, "xi", "5"),
           ("sv", 0, "xn", "1"), ("sv", 0, "xe", "1~1"), ("rd",), ("at", "n"), ("at",), ("cp", "p"), ("cp", "c")],
    "Xn+Xe": [("sv", 0, "xn", "1"), ("sv", 0, "xn", "2"), ("sv", 0, "xn", "0"), ("sv", 0, "xe", "1~0"),
              ("sv", 0, "xe", "1~1"), ("sv", 0, "xe", "1~2"), ("sv", 0, "xe", "2~1"), ("sv", 0, "xi", "1"), ("rd",),
              ("at",), ("cp", "d")],
    "T": [("st", 0, [1]), ("st", 0, [1, 2]), ("st", 0, []), ("mt", 0, "add:1"), ("mt", 0, "add:2"),
          ("mt", 0, "discard:1"), ("mt", 0, "ixor:[1,2]"), ("mt", 0, "clear"), ("mt", 1, "add:1"), ("rd",), ("at", "n"), ("at",)],
}
SMALL_SHAPES = ["%s 1 o 1 0 0 0 V 0 - -", "%s 1 o 0 0 1 1 F 0 - bu", "%s 0 o 0 0 0 0 S 0 - rd"]


def exhaustive_small(maxlen):
    """Every history of length <= maxlen over a small alphabet (pool of 3), followed by a read."""
    import itertools
    for expr, alpha in SMALL_ALPHABETS.items():
        for sh in SMALL_SHAPES:
            for L in range(1, maxlen + 1):
                for seq in itertools.product(alpha, repeat=L):
                    yield rebuild(sh % expr, 3, list(seq) + [("rd",)])[0]


def corpus():
    raw = [
        # item present twice, removed once, then changed
        "k.v 1 o 0 0 0 0 V 0 -|3|sv 1 v 3;mk 0 append:1 [1] 1;mk 0 append:1 [1,1] 1;rd;mk 0 del:0 [1] 1;rd;sv 1 v 5;rd",
        # intermediate object replaced; old one changes afterwards
        "i.k.v 1 o 1 0 0 0 V 0 -|4|si 0 1;mk 1 append:2 [2] 1;rd;si 0 3;sv 2 v 4;rd;mk 3 append:2 [2] 1;sv 2 v 5;rd",
        # equal list reassigned (new list object), then mutated in place
        "k.v 1 o 0 0 0 0 V 0 -|3|sk 0 [1];rd;sk 0 [1];mk 0 append:2 [1,2] 1;rd",
        # static reader on a dependency: dispatched before the invalidation (known finding)
        "v 1 o 0 0 1 0 V 0 -|2|rd;sv 0 v 5;rd",
        # copies in the middle, with a static listener and a reader on aux
        "v+i.v 1 o 1 1 0 0 V 0 -|3|sv 0 a 1;sv 0 v 2;si 0 1;sv 1 v 7;cp p;rd;cp c;rd;cp d;sv 1 v 8;rd",
        # getter raising on its first call
        "v 1 o 0 0 0 0 V 0 0:ValueError|2|rd;rd;sv 0 v 3;rd",
        # F10: link re-pointed while reachable through itself (impl + oracle only)
        "i.i.v 1 o 0 0 0 0 V 0 -|3|si 0 0;rd;si 0 2;rd;sv 2 v 6;rd",
        # F10, raising form, and the stale cache it leaves behind (impl + oracle only)
        "b.b.v 1 o 1 0 0 0 V 0 -|3|mb 0 set:3:0 {3:0} 1;mb 0 set:3:2 {3:2} 1;mb 2 setdefault:0:1 {0:1} 1;rd",
        # legacy, item present twice removed once: documents the behaviour (impl only; tagged observation, no hit)
        "k.v 1 l 0 0 0 0 V 0 -|3|mk 0 append:1 [1] 1;mk 0 append:1 [1,1] 1;rd;mk 0 del:0 [1] 1;rd;sv 1 v 5;rd",
        # legacy, one object reached through two paths (kids and byname): the handler sits on its `value` once;
        # kids lets go of it and the byname path is deaf (documents the behaviour; impl only, tagged observation)
        "k.v+b.v 0 l 0 1 0 1 S 1 - - S|5|K v=6/xm=3/t=[1,3,5]/xe=4~0/k=[2]/b={0:1,3:2};at;sk 0 [4];sv 2 v 2",
        # uncached with listeners
        "b.v 0 o 0 0 0 1 S 0 -|3|at;mb 0 set:1:2 {1:2} 1;sv 2 v 4;rd;dt;sv 2 v 5;rd",
        # the getter legitimately computes None / 0 / '' / []: cached like any other value
        "v 1 o 0 0 0 0 F 0 - -|2|rd;rd;rd;sv 0 v 1;rd;rd;sv 0 v 2;rd;rd;sv 0 v 3;rd;rd;cp p;rd;rd;cp c;rd;rd",
        "k.v 1 o 1 0 0 0 F 0 - -|3|sk 0 [1,2];rd;rd;sv 1 v 3;rd;rd;mk 0 append:1 [1,2,1] 1;rd;rd",
        # inherited property: base uncached / subclass @cached_property (also two levels, unpickled, cloned)
        "k.v+i.v 1 o 0 0 0 0 V 0 - bu|4|sk 0 [1,2];si 0 3;rd;sv 1 v 5;rd;mk 0 append:1 [1,2,1] 1;rd;sv 3 v 2;rd;cp p;"
        "rd;sv 1 v 6;rd;cp c;rd;sv 2 v 7;rd",
        "i.v 1 o 0 0 0 0 V 0 - b2|3|at;si 0 1;rd;sv 1 v 5;rd;rd",
        # base cached / subclass plain getter; property redeclared with another expression
        "i.v 0 o 0 0 0 0 V 0 - bc|3|at;si 0 1;rd;sv 1 v 5;rd",
        "i.v 1 o 0 0 0 0 V 0 - rd|3|si 0 1;rd;sv 1 v 5;rd;mt 0 add:1 [1] 1;rd",
        "v 1 l 0 0 0 0 V 0 - bu|2|rd;sv 0 v 5;rd;sv 0 v 6;rd",
        # a value the observers cannot hook is stored and the statement raises: invalidated and announced first
        "k.v 1 o 0 0 0 0 V 0 - -|3|sk 0 [1,2];at;rd;uh k 0;rd;sv 1 v 5;rd",
        "i.v 1 o 1 0 0 0 V 0 - -|3|si 0 1;sv 1 v 4;rd;uh i 0;rd",
        "b.v 1 o 0 0 0 0 S 0 - -|3|mb 0 set:0:1 {0:1} 1;at;rd;uh b 0;rd;sv 1 v 2;rd",
        # the un-hookable value is not the last thing to hook: the failed hook-up is rolled back, later changes
        # are missed (known finding; impl + oracle only)
        "k.v 1 o 0 0 0 0 V 0 - -|3|at;rd;uf ka 0 [1,N,2];rd;sv 1 v 10;rd;sv 2 v 20;rd",
        # repeated items, same-length slice assignment changing the multiplicities, pop, change of what is left
        "k.v 1 o 0 0 0 0 V 0 - -|3|sk 0 [1,1,2];rd;mk 0 slice:0:3:[1,2,2] [1,2,2] 1;rd;mk 0 pop:-1 [1,2] 1;rd;sv 2 v 5;"
        "rd;sv 1 v 6;rd",
        "k.i.v 1 o 1 0 0 0 V 0 - -|5|si 1 3;si 2 4;sk 0 [1,1,2];rd;mk 0 slice:0:3:[1,2,2] [1,2,2] 1;mk 0 pop:-1 [1,2] 1;"
        "sv 4 v 5;rd;si 2 3;rd",
        # dependencies with a comparison mode, assigned equal-but-distinct objects (1 / 1.0 / True, equal tuples)
        "Xi 1 o 0 0 0 0 V 0 - -|2|sv 0 xi 1;at;rd;sv 0 xi 2;rd;sv 0 xi 3;rd;sv 0 xi 3;rd;sv 0 xi 4;rd;sv 0 xi 5;rd;cp p;rd;"
        "sv 0 xi 4;rd;cp c;sv 0 xi 5;rd",
        "Xn+Xe 1 o 1 0 0 0 V 0 - -|2|sv 0 xn 1;rd;sv 0 xn 1;rd;sv 0 xn 2;rd;sv 0 xe 1~0;rd;sv 0 xe 1~1;rd;sv 0 xe 1~2;rd;"
        "sv 0 xe 3~1;rd",
        "i.Xi 1 o 0 0 0 0 V 0 - bu|3|si 0 1;sv 1 xi 6;rd;sv 1 xi 7;rd;sv 1 xi 7;rd",
        "Xi 1 l 1 0 0 0 V 0 - -|2|sv 0 xi 1;rd;sv 0 xi 2;rd;sv 0 xi 3;rd",
        # a dict key set again to the identical object, update(dict(d)), a value under two keys; then it changes
        "b.v 1 o 0 0 0 0 V 0 - -|3|mb 0 set:0:1 {0:1} 1;rd;mb 0 set:0:1 {0:1} 1;rd;sv 1 v 5;rd;mb 0 update:{0:1} {0:1} 1;"
        "rd;sv 1 v 6;rd",
        "b.v 1 o 0 0 0 0 V 0 - -|3|sb 0 {0:1,1:1};rd;mb 0 set:0:1 {0:1,1:1} 1;mb 0 set:1:1 {0:1,1:1} 1;rd;sv 1 v 5;rd;"
        "mb 0 update:{0:1,1:1} {0:1,1:1} 1;mb 0 update:{0:1,1:1} {0:1,1:1} 1;sv 1 v 6;rd",
        # Undefined-returning getter
        "v 1 o 0 0 0 0 S 1 -|2|sv 0 v 3;rd;rd;sv 0 v 4;rd;rd",
        # every kind of listener as the ONLY one the object ever had: name-less on_trait_change (object-level
        # notifier list), on_trait_change by name, observe by name, class-level _anytrait_changed
        "v+k.v 1 o 0 0 0 0 V 0 - -|3|sk 0 [1,2];rd;at n;sv 0 v 2;rd;sv 1 v 10;mk 0 append:2 [1,2,2] 1;dt n;sv 0 v 3;rd",
        "v 0 o 0 0 0 0 V 0 - -|2|at n;sv 0 v 2;sv 0 v 3;rd",
        "i.v 1 o 0 0 0 0 S 0 - -|3|at t;si 0 1;sv 1 v 4;dt t;sv 1 v 5;at o;sv 1 v 6;rd;cp p;at n;sv 1 v 7",
        "k.v 1 o 0 0 0 0 V 0 - - A|3|sk 0 [1];sv 1 v 3;rd;sv 1 v 4;cp c;sv 1 v 5;rd",
        "v 0 o 0 0 0 0 F 0 - bc A|2|sv 0 v 3;at n;sv 0 v 4;dt n;sv 0 v 5",
        # a mapped dependency: the getter reads the shadow `xm_`, with every kind of listener evaluating the getter
        # inside the invalidation
        "Xm 1 o 1 0 0 0 V 0 - -|2|rd;sv 0 xm 2;rd;sv 0 xm 2;rd;sv 0 xm 3;rd;cp p;sv 0 xm 1;rd;cp c;sv 0 xm 2;rd",
        "i.Xm+Xm 1 o 0 0 0 0 S 0 - -|3|si 0 1;at o;sv 1 xm 3;rd;dt o;at n;sv 0 xm 2;rd;sv 1 xm 1;rd",
        "k.Xm 0 o 0 0 0 0 V 0 - - A|3|sk 0 [1,1,2];sv 1 xm 2;sv 2 xm 1;rd",
        # container calls in which the LAST item is rejected: nothing of the call may stay behind un-announced
        "b.v 1 o 1 0 0 0 V 0 - -|4|mb 0 set:0:1 {0:1} 1;rd;mf 0 b uv [2,3];rd;sv 2 v 5;rd;mf 0 b uk [2];rd;mf 0 b as [3];rd",
        "B 1 o 0 0 0 0 V 0 - -|3|at;rd;mf 0 b uv [1];rd;mf 0 b uv [1,2];rd",
        "k.v 1 o 0 0 0 0 V 0 - -|4|sk 0 [1];at n;rd;mf 0 k ex [2,3];rd;mf 0 k sl [2];mf 0 k ia [3];mf 0 k as [2];rd;sv 2 v 4;rd",
        "T 1 o 1 0 0 0 S 0 - -|2|mt 0 add:1 [1] 1;rd;mf 0 t up [2,3];rd;mf 0 t io [4];rd",
        # set through the property's own setter (arity 2 / 3, validated or not), read-only property, rejected
        # value, deletion: the setter's dependency write invalidates and announces like any other change
        "i.v 1 o 1 0 0 0 V 0 - - S|3|si 0 1;rd;sp 5;rd;sp 5;rd;sp bad;rd;dp;rd;si 0 N;sp 7;rd",
        "k.v+v 1 o 0 0 0 0 S 0 - - TV|3|sk 0 [1,2];at;rd;sp 4;rd;sp bad;rd;cp p;sp 6;rd;dp",
        "v 1 o 1 0 1 0 V 0 - - SA|2|rd;sp 3;rd;sp 3;rd",
        "B 0 o 0 0 0 0 V 0 - - S|3|at n;sp 2;rd;sp 2;sp 3",
        "v 1 o 1 0 0 0 V 0 - - V|2|rd;sp 3;rd;sp bad;dp;rd",
        "b.v 1 l 1 0 0 0 V 0 - bu T|3|sb 0 {1:2};rd;sp 8;rd",
        # dynamic defaults returning shared objects (impl + oracle only): kids assigned before its default
        # [self.inst] was ever read - the old value handed to the maintainer is an un-hooked list holding an object
        # that is hooked through the other path
        "k.v+i.v 1 o 0 0 0 0 V 0 - - D|4|si 0 1;sk 0 [2];rd;sv 1 v 5;rd;sv 2 v 6;rd",
        "k.i.v+i.i.v 1 o 0 0 0 0 V 0 - - D|5|si 0 1;si 1 3;sk 0 [2];rd;sv 3 v 5;rd;si 1 4;rd;sv 4 v 7;rd",
        "b.v+i.v 1 o 1 0 0 0 S 0 - - D|4|K i=1/b={1:2};rd;sv 1 v 5;rd",
        # ... and `inst` assigned before its default kids[0] was read: the old value is an OBJECT hooked through the
        # kids path, whose hooks the maintainer takes away (known finding)
        "i.v+k.v 1 o 0 0 0 0 V 0 - - D|4|sk 0 [1];si 0 2;rd;sv 1 v 5;rd",
        # two holders of one literal code, pickled (floats / tuples are not memoised: each holder gets its own copy),
        # then the code is assigned again to each: the identical object for that holder, no change
        "Xi+Xe 1 o 1 0 0 1 S 1 1:TraitError -|4|sv 1 xi 2;sv 0 xi 2;cp p;sv 0 xi 2",
        "i.Xi+Xi 1 o 1 0 0 0 V 0 - -|3|si 0 1;sv 1 xi 5;sv 0 xi 5;rd;cp p;sv 0 xi 5;sv 1 xi 5;rd;sv 1 xi 4;rd;sv 0 xi 4;rd",
    ]
    return [normalise(c) for c in raw]


def generate(rng, tier):
    n = {"quick": 2000, "thorough": 50000, "intense": 20000}.get(tier, 2000)
    yield from exhaustive_small(3 if tier == "thorough" else 2)
    for i in range(n):
        yield random_history(rng)
    for i in range(n // 4):
        yield motif_history(rng)
    for i in range(n // 10):
        yield random_history(rng, legacy=False, maxsteps=8, unhookable=1.0)
    for i in range(n // 40):
        yield failed_hookup_history(rng)
    for i in range(n // 8):
        yield defaults_history(rng)
    # legacy shape on tree-shaped graphs gets its own stream (separate class shape)
    for i in range(n // 8):
        yield random_history(rng, legacy=True, allow_self=0.0)
    # self links are frequent here: mostly impl + oracle only ('#') - searches for a *stale* cache where the real
    # machinery leaves its specification (F10), and for anything else the oracle can see
    for i in range(n // 8):
        yield random_history(rng, legacy=False, allow_self=0.5, exprs=SELF_EXPRS)
