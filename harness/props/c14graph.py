"""C14, oracle-only families over object graphs (run on the implementation, judged on the property statement):

#GV who|slot|kind|op   plain TraitList / TraitSet / TraitDict objects (public API: `TraitList(item_validator=…)`) held
                       as trait VALUES (Instance, Any, inside List / Dict traits) whose validators are bound methods of
                       an object of the graph (the owner itself, a policy object it holds) or a plain function.  "The copy
                       is fully live … its (nested) container values still reject invalid items": after a copy that the
                       metadata / mode makes deep, the copied container must validate on behalf of the COPY - its
                       validator is the same function bound to the copy's counterpart of the object it was bound to - so
                       when copy and original diverge, an item invalid for the copy is rejected by every mutator and an
                       item valid only for the copy is accepted; the original is untouched.
#GA shape|target       deep copies of CONTAINERS / tuples of HasTraits objects (the value of a List(Instance) / Dict trait,
                       a tuple / list / dict of objects, `copy_traits(…, copy='deep')` with and without memo, pickles) that
                       share sub-objects: the copy has exactly the sharing the source had (isomorphic graph, identities
                       disjoint).
Never import traits at module level."""
import copy
import pickle
import sys

from .seqlib import exc_name

_K = {}


def _free_check(value):
    if value not in ("a", "b"):
        from traits.api import TraitError
        raise TraitError("%r is not an allowed tag" % (value,))
    return value


def classes():
    if _K:
        return _K
    from traits.api import Any, Dict, HasTraits, Instance, Int, List, Set, Str, This, TraitError
    from traits.trait_dict_object import TraitDict
    from traits.trait_list_object import TraitList
    from traits.trait_set_object import TraitSet
    mod = sys.modules[__name__]

    class GvPolicy(HasTraits):
        allowed = Set(Str)

        def check(self, value):
            if value not in self.allowed:
                raise TraitError("%r is not an allowed tag" % (value,))
            return value

    class GvModel(HasTraits):
        allowed = Set(Str)
        policy = Instance(GvPolicy)
        inst_l = Instance(TraitList)
        inst_s = Instance(TraitSet)
        inst_d = Instance(TraitDict)
        anyv = Any()
        listed = List(Any)
        dictval = Dict(Str, Any)

        def check(self, value):
            if value not in self.allowed:
                raise TraitError("%r is not an allowed tag" % (value,))
            return value

    class GaShared(HasTraits):
        n = Int()
        inner = This

    class GaNode(HasTraits):
        name = Str()
        shared = Instance(GaShared)
        peers = List(This)

    class GaOwner(HasTraits):
        nodes = List(Instance(GaNode))
        index = Dict(Str, Instance(GaNode))
        anyv = Any()

    for c in (GvPolicy, GvModel, GaShared, GaNode, GaOwner):
        c.__module__ = __name__
        c.__qualname__ = c.__name__
        setattr(mod, c.__name__, c)
    _K.update(GvPolicy=GvPolicy, GvModel=GvModel, GaShared=GaShared, GaNode=GaNode, GaOwner=GaOwner,
              TraitList=TraitList, TraitSet=TraitSet, TraitDict=TraitDict, TraitError=TraitError)
    return _K


# ------------------------------------------------------------------------------------------------ generic graph walk

def canon(root):
    """Identity-aware canonical form: nodes in discovery order with a label, edges (src, label, dst).  HasTraits
    objects and list / tuple / dict / set objects are nodes (a set's members are visited in sorted-repr order of their
    labels, which is enough for the shapes used here); everything else is a leaf label."""
    from traits.api import HasTraits
    index, labels, edges, objs = {}, [], [], []

    def visit(x):
        if isinstance(x, HasTraits) or isinstance(x, (list, tuple, dict, set)):
            if id(x) in index:
                return index[id(x)]
            me = len(labels)
            index[id(x)] = me
            objs.append(x)
            if isinstance(x, HasTraits):
                labels.append("obj:" + type(x).__name__)
                for name in sorted(x.trait_names()):
                    if name in ("trait_added", "trait_modified"):
                        continue
                    edges.append((me, "." + name, visit(x.__dict__.get(name, getattr(x, name)))))
            elif isinstance(x, dict):
                labels.append("dict")
                for k in sorted(x, key=repr):
                    edges.append((me, "[%r]" % (k,), visit(x[k])))
            elif isinstance(x, set):
                labels.append("set")
                for i, v in enumerate(sorted(x, key=repr)):
                    edges.append((me, "{%d}" % i, visit(v)))
            else:
                labels.append("tuple" if isinstance(x, tuple) else "list")
                for i, v in enumerate(x):
                    edges.append((me, "[%d]" % i, visit(v)))
            return me
        return "leaf:%r" % (x,)
    visit(root)
    return labels, edges, objs


# ------------------------------------------------------------------------------------------------------------- #GV

GV_WHO = ["self", "policy", "func"]
GV_SLOT = ["inst", "any", "listed", "dictval"]
GV_KIND = ["list", "set", "dict"]
DEEP_SIGS = ("pickle", "deepcopy", "clone-deep")


def gv_build(who, slot, kind):
    K = classes()
    m = K["GvModel"](allowed={"a", "b"}, policy=K["GvPolicy"](allowed={"a", "b"}))
    v = {"self": m.check, "policy": m.policy.check, "func": _free_check}[who]
    if kind == "list":
        c = K["TraitList"](["a", "b"], item_validator=v)
    elif kind == "set":
        c = K["TraitSet"](["a"], item_validator=v)
    else:
        c = K["TraitDict"]({"a": "b"}, key_validator=v, value_validator=v)
    if slot == "inst":
        setattr(m, {"list": "inst_l", "set": "inst_s", "dict": "inst_d"}[kind], c)
    elif slot == "any":
        m.anyv = c
    elif slot == "listed":
        m.listed = [c]
    else:
        m.dictval = {"k": c}
    return m, c


def gv_get(m, slot, kind):
    if slot == "inst":
        return getattr(m, {"list": "inst_l", "set": "inst_s", "dict": "inst_d"}[kind]), \
            {"list": "inst_l", "set": "inst_s", "dict": "inst_d"}[kind]
    if slot == "any":
        return m.anyv, "anyv"
    if slot == "listed":
        return m.listed[0], "listed"
    return m.dictval["k"], "dictval"


def gv_validators(c, kind):
    return [c.item_validator] if kind != "dict" else [c.key_validator, c.value_validator]


def gv_mutators(c, kind, item):
    if kind == "list":
        return [("append", lambda: c.append(item)), ("setitem", lambda: c.__setitem__(0, item)),
                ("extend", lambda: c.extend([item])), ("insert", lambda: c.insert(0, item)),
                ("iadd", lambda: c.__iadd__([item]))]
    if kind == "set":
        return [("add", lambda: c.add(item)), ("update", lambda: c.update([item])), ("ior", lambda: c.__ior__({item}))]
    return [("setitem-key", lambda: c.__setitem__(item, "a")), ("setitem-value", lambda: c.__setitem__("a", item)),
            ("update", lambda: c.update({"a": item})), ("setdefault", lambda: c.setdefault(item, "a"))]


def run_gv(case, do_copy, copy_sig):
    who, slot, kind, op = case[4:].split("|")
    K = classes()
    TraitError = K["TraitError"]
    sig = copy_sig[op if not op.startswith("pickle") else "pickle"]
    tags = ["GV", "GV:" + who, "GV:" + slot, "GV:" + kind, "GV:" + sig]
    m, c = gv_build(who, slot, kind)
    before = copy.deepcopy(list(c.items()) if kind == "dict" else sorted(c))
    try:
        m2 = do_copy(m, op)
    except Exception as e:
        return "copyerr " + exc_name(e), [{"signature": "copy-raises:%s:%s" % (sig, exc_name(e)),
                                           "what": "%s of an object holding a Trait%s with a %s validator raised %s"
                                           % (op, kind.capitalize(), who, e), "no_shrink": True}], tags
    c2, tname = gv_get(m2, slot, kind)
    hits, res = [], []
    where = "%s:%s" % (sig, kind)          # slot and owner of the validator are in the case line and the tags

    def hit(label, what):
        res.append(label)
        hits.append({"signature": "%s:%s" % (label, where), "no_shrink": True,
                     "what": "Trait%s held in %s, validator of %s: %s (after %s)" % (kind.capitalize(), tname, who, what, op)})
    deep = sig in DEEP_SIGS or (sig.startswith("clone") and m.base_trait(tname).copy == "deep")
    if type(c2) is not type(c) or (list(c2.items()) if kind == "dict" else sorted(c2)) != before:
        hit("value-differs", "the copied container differs from the original's value")
        return " ".join(res), hits, tags
    if not deep:
        # reference / shallow semantics were asked for: nothing about re-binding is promised
        res.append("shared" if c2 is c else "shallow")
        return " ".join(res), hits, tags + ["GV:not-deep"]
    if c2 is c:
        hit("shared-mutable", "the container is shared between copy and original")
        return " ".join(res), hits, tags
    if who != "func":
        target = m2 if who == "self" else m2.policy
        source = m if who == "self" else m.policy
        if target is source:
            hit("shared-mutable", "the object the validator belongs to is shared")
            return " ".join(res), hits, tags
        for v in gv_validators(c2, kind):
            if getattr(v, "__self__", None) is source:
                hit("validator-not-rebound",
                    "the copied container's validator is a bound method of the ORIGINAL's object: it validates on behalf of "
                    "the original graph and keeps it alive")
                break
        # behaviour, after the two graphs diverge (when the binding is already wrong the behaviour follows from it)
        target.allowed = {"a", "z"}
        for name, f in ([] if hits else gv_mutators(c2, kind, "b")):
            try:
                f()
                hit("copy-accepts-invalid:" + name,
                    "'b' is no longer allowed for the copy, but the copied container accepted it through %s" % name)
                break
            except TraitError:
                pass
            except Exception as e:
                hit("mutator-raises:" + name, "%s raised %s" % (name, exc_name(e)))
                break
        for name, f in ([] if hits else gv_mutators(c2, kind, "z")):
            try:
                f()
            except TraitError:
                hit("copy-rejects-valid:" + name,
                    "'z' is allowed for the copy (not for the original), but the copied container rejected it in %s" % name)
                break
            except Exception as e:
                hit("mutator-raises:" + name, "%s raised %s" % (name, exc_name(e)))
                break
        if source.allowed != {"a", "b"} or (list(c.items()) if kind == "dict" else sorted(c)) != before:
            hit("original-changed", "mutating the copy changed the original")
    else:
        for name, f in gv_mutators(c2, kind, "zz"):
            try:
                f()
                hit("copy-accepts-invalid:" + name, "the copied container accepted an item its validator rejects")
                break
            except TraitError:
                pass
            except Exception as e:
                hit("mutator-raises:" + name, "%s raised %s" % (name, exc_name(e)))
                break
    if not hits:
        res.append("ok")
    return " ".join(res), hits, tags


def gen_gv(copy_ops):
    for who in GV_WHO:
        for slot in GV_SLOT:
            for kind in GV_KIND:
                for op in copy_ops:
                    yield "#GV %s|%s|%s|%s" % (who, slot, kind, op)


# ------------------------------------------------------------------------------------------------------------- #GA

GA_SHAPES = ["two-share", "same-twice", "deep-share", "cross", "cycle", "three"]
GA_TARGETS = ["list-value", "dict-value", "any-list", "tuple", "pylist", "pydict", "nested", "copy_traits-nomemo",
              "copy_traits-memo", "copy_traits-none", "pickle-tuple", "pickle-list-value", "clone-deep", "deepcopy-owner",
              "deepcopy-memo-given"]


def ga_build(shape):
    K = classes()
    S, N, O = K["GaShared"], K["GaNode"], K["GaOwner"]
    sh = S(n=7)
    if shape == "two-share":
        ns = [N(name="a", shared=sh), N(name="b", shared=sh)]
    elif shape == "same-twice":
        a = N(name="a", shared=sh)
        ns = [a, a]
    elif shape == "deep-share":
        ns = [N(name="a", shared=S(n=1, inner=sh)), N(name="b", shared=S(n=2, inner=sh))]
    elif shape == "cross":
        b = N(name="b", shared=sh)
        ns = [N(name="a", shared=sh, peers=[b]), b]
    elif shape == "cycle":
        a, b = N(name="a", shared=sh), N(name="b", shared=sh)
        a.peers = [b]
        b.peers = [a]
        ns = [a, b]
    else:
        ns = [N(name="a", shared=sh), N(name="b", shared=S(n=3)), N(name="c", shared=sh)]
    o = O(nodes=ns, index=dict(("k%d" % i, n) for i, n in enumerate(ns)))
    o.anyv = list(ns)
    return o, ns


def ga_apply(o, ns, target):
    """(original structure, copied structure)."""
    K = classes()
    if target == "list-value":
        return o.nodes, copy.deepcopy(o.nodes)
    if target == "dict-value":
        return o.index, copy.deepcopy(o.index)
    if target == "any-list":
        return o.anyv, copy.deepcopy(o.anyv)
    if target == "tuple":
        return tuple(ns), copy.deepcopy(tuple(ns))
    if target == "pylist":
        return list(ns), copy.deepcopy(list(ns))
    if target == "pydict":
        d = dict((n.name + str(i), n) for i, n in enumerate(ns))
        return d, copy.deepcopy(d)
    if target == "nested":
        t = (o.nodes, ns[0], {"x": ns[-1]})
        return t, copy.deepcopy(t)
    if target.startswith("copy_traits"):
        other = K["GaOwner"]()
        kw = {"nomemo": {}, "memo": {"memo": {}}, "none": {"memo": None}}[target.split("-")[1]]
        un = other.copy_traits(o, copy="deep", **kw)
        if un:
            raise RuntimeError("unassignable %r" % (un,))
        if kw.get("memo") is None:
            # without a memo every trait value is deep-copied on its own: sharing is promised inside one value only
            return ("per-value", [o.nodes, o.index, o.anyv]), ("per-value", [other.nodes, other.index, other.anyv])
        return [o.nodes, o.index, o.anyv], [other.nodes, other.index, other.anyv]
    if target == "pickle-tuple":
        return tuple(ns), pickle.loads(pickle.dumps(tuple(ns), 2))
    if target == "pickle-list-value":
        return o.nodes, pickle.loads(pickle.dumps(o.nodes, 4))
    if target == "clone-deep":
        return o, o.clone_traits(copy="deep")
    if target == "deepcopy-owner":
        return o, copy.deepcopy(o)
    if target == "deepcopy-memo-given":
        # the way copy.deepcopy calls it: an EMPTY memo handed in
        return o, o.__deepcopy__({})
    raise ValueError(target)


def run_ga(case):
    shape, target = case[4:].split("|")
    tags = ["GA", "GA:" + shape, "GA:" + target]
    from traits.api import HasTraits
    o, ns = ga_build(shape)
    try:
        orig, dup = ga_apply(o, ns, target)
    except Exception as e:
        return "copyerr " + exc_name(e), [{"signature": "copy-raises:%s:%s" % (target, exc_name(e)),
                                           "what": "%s of the graph %s raised %s" % (target, shape, e), "no_shrink": True}], tags
    hits, res = [], []
    where = target                          # the sharing shape is in the case line and the tags
    if isinstance(orig, tuple) and len(orig) == 2 and orig[0] == "per-value":
        parts = [(canon(a), canon(b)) for a, b in zip(orig[1], dup[1])]
        bad = [p for p in parts if (p[0][0], p[0][1]) != (p[1][0], p[1][1])]
        (l1, e1, o1), (l2, e2, o2) = bad[0] if bad else parts[0]
        o1 = [x for p in parts for x in p[0][2]]
        o2 = [x for p in parts for x in p[1][2]]
    else:
        l1, e1, o1 = canon(orig)
        l2, e2, o2 = canon(dup)
    if (l1, e1) != (l2, e2):
        n1 = sum(1 for x in l1 if x.startswith("obj:"))
        n2 = sum(1 for x in l2 if x.startswith("obj:"))
        label = "aliasing-lost" if n2 > n1 else ("aliasing-gained" if n2 < n1 else "graph-shape")
        res.append(label)
        hits.append({"signature": "%s:%s" % (label, where), "no_shrink": True,
                     "what": "%s of %s: the copy has %d objects where the source has %d - the copy does not have exactly "
                     "the sharing the source had (edges %r vs %r)" % (target, shape, n2, n1, e2[:12], e1[:12])})
    ids1 = set(id(x) for x in o1 if isinstance(x, HasTraits) or isinstance(x, (list, dict, set)))
    if any(id(x) in ids1 for x in o2 if isinstance(x, HasTraits) or isinstance(x, (list, dict, set))):
        res.append("shared-mutable")
        hits.append({"signature": "shared-mutable:%s" % where, "no_shrink": True,
                     "what": "%s of %s: an object or container of the deep copy is one of the source" % (target, shape)})
    if not hits:
        res.append("ok objs=%d" % sum(1 for x in l2 if x.startswith("obj:")))
    return " ".join(res), hits, tags


def gen_ga():
    for shape in GA_SHAPES:
        for target in GA_TARGETS:
            yield "#GA %s|%s" % (shape, target)
