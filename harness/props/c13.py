"""C13 — every attribute name is governed by the right trait and its access policy."""
from . import resolvelib as R

PROPERTY = "C13"
DRIVER = "TraitsVerif/Driver/Resolve.lean"
PROPS_MODULES = ["TraitsVerif.Props.C13"]
TRANSLATORS = ["prefixtable", "resolve_c", "resolve_py"]
RULE = ("class hierarchies of 1-3 levels below HasTraits / HasStrictTraits / HasPrivateTraits built with "
        "MetaHasTraits(name, bases, dict), declaring exact traits and wildcard traits (x_, xy_, xyx_, _, __, ...) of "
        "kinds Any/Int/Str/ReadOnly/Constant/Event/Disallow/Python with and without defaults; 1-3 objects; histories "
        "of 1-10 get/set/del/add_trait/remove_trait/_trait operations on names built to match 0/1/2/3 wildcards, "
        "exact names, _private, __dunder__, trailing underscores, the empty name; a stream with a class defined "
        "after its base was used; a malformed stream (dangling references); exhaustive names over {x,y,_}^<=3 "
        "(quick) / ^<=4 (thorough) x 8 fixed hierarchies x every single operation on a fresh hierarchy, shared-cache "
        "orders and add/remove round trips.  Compared: outcome class + canonical value of every operation, the "
        "declaration tag of obj._trait(name, 0) after it, the sorted prefix list of every class.  A case is "
        "non-trivial when it produced an observation; distinct = distinct canonical output line")
TRUSTED = ["validators are parameters of the model (Env.validate); the driver instantiates them with 'is an int' / "
           "'is a str' (C01/C03 own the validators)",
           "attributes found on the type by PyObject_GenericGetAttr are a parameter (Env.classAttr), empty in the "
           "driver: generated names never collide with HasTraits methods",
           "declaration identity is observed through metadata tag=<n> carried by every generated trait and "
           "preserved by clone; library traits are identified by handler identity",
           "class-trait dictionaries of HasTraits/HasStrictTraits/HasPrivateTraits are restored before every case "
           "(they cache resolved prefix traits process-wide)",
           "source tie (translators resolve_c / resolve_py, Model/ResL.lean): the interpreter's reading of the C API and "
           "Python primitives (`prim`: dictionary calls act on the four dictionaries of the model with write-through, "
           "PyObject_GenericGetAttr = genericGet, trait->getattr / trait->setattr = getattrKind / setattrKind, "
           "has_traits_setattro(obj, trait_added, name) = fireTraitAdded, trait->notifiers = NULL, names are str); "
           "reference counting and assert are dropped by the C reader; `self._trait(name, i)` is interpreted by the "
           "program of get_trait - justified for i >= -1 by C13_trait_call_is_source (the translated wrapper "
           "_has_traits_trait, PyArg_ParseTuple(args, 'Oi', &name, &instance) read as the binding of its parameters); the "
           "delegate chain of i = -2 is an opaque statement, not interpreted; statements about static handlers / companion traits / add_trait's argument normalisation are "
           "ghost no-ops pinned by their exact text (resolve_py.GHOST)",
           "extra_checks: a static trait_added handler that adds instance traits is built directly in Python (outside "
           "the case language)"]
ASSUMPTIONS = ["trait_added listeners are modelled for one shape only: add_trait(new, Spec) for names starting with a "
               "prefix (Obj.hooks); the theorems carry NoDeleg, which also says that no such listener is installed - "
               "except C13_reentrant_add_governs, which is about them",
               "multiple inheritance: the model merges the bases' tables in the order of the bases (as the code does); "
               "Python's C3 order is computed by the oracle only, not modelled in Lean",
               "no change handlers are attached (call_notifiers is never entered on the modelled paths)",
               "trait_added keeps its HasTraits declaration, so the event fired by get_prefix_trait/add_trait is a "
               "no-op for resolution",
               "property traits are outside the model (C12). Delegate traits: only their *resolution* is modelled (the "
               "`name_` shadow branch of __prefix_trait__, exercised by a dedicated stream with DelegatesTo('dg'), dg "
               "left at None, compared by correspondence only); their access semantics is an opaque callback (C11); "
               "every theorem about policies / coherence carries NoDeleg (no delegate trait in the world)",
               "generated hierarchies: linear chains of 1-3 levels, plus a stream of two-base classes (independent "
               "chains and diamonds with a valid C3 order), plus a stream of two or three bases that define the same wildcard "
               "prefix (or the '' class default, through HasStrictTraits / HasPrivateTraits bases) differently, in every "
               "order; a deviation in such a class is the known finding F55 only if the observed outcome and governing "
               "trait are exactly what the first-base-wins merge predicts",
               "add_class_trait after instances exist is outside the quantifier (DESIGN section 7)"]
EXHAUSTIVE = {"quick": False, "thorough": True}


def corpus():
    return [
        # resolved wildcard inherited by a class defined later (known finding)
        "res|cls A H x_=Int@1;new a A;get a .xy;cls B A xy_=Str@2;new b B;get b .xy;set b .xy sa",
        # dunder special case on a strict class (known finding)
        "res|cls A S x=Int@1;new a A;new b A;get a .__f__;set a .__f__ i1;get b .__f__;del b .__f__",
        # value assigned before add_trait shadows the new trait on reads (known finding)
        "res|cls A H -;new a A;set a .x i5;add a .x Ev@1;get a .x;add a .x Dis@2;get a .x;add a .x Const:i9@3;get a .x",
        # ReadOnly: read first (stores Undefined), define once, refuse afterwards
        "res|cls A H r=RO@1,r_=RO@2,k=RO:i7@3;new a A;get a .r;set a .r u;set a .r i1;set a .r i2;get a .r;"
        "del a .r;set a .k i1;get a .k;set a .rq i1;set a .rq i1;get a .rq",
        # ReadOnly with a default other than Undefined (None, 0, '') is never assignable
        "res|cls A H n=RO:n@1,z=RO:i0@2,e_=RO:s@3;new a A;set a .n i1;get a .n;set a .z i1;get a .z;set a .ex sa;get a .ex;"
        "set a .n u;set a .n n",
        # longest prefix over three levels, own wildcard overrides inherited one
        "res|cls A H x_=Int@1;cls B A xy_=Str@2,x_=Any@3;cls C B xyx_=Dis@4;new c C;new b B;new a A;"
        "set c .xyxx i1;set c .xyy i1;set c .xyy sa;set c .xq sa;set b .xyxx i1;set b .xyxx sa;set a .xyxx sa;set a .xyxx i1",
        # two bases: the first base's merged tables win over the MRO (known finding)
        "res|cls A H -;cls B S -;cls D A,B -;new d D;set d .foo i1;cls E B,A -;new e E;set e .foo i1",
        "res|cls A H x=Int@1,q_=Int@2;cls B A x=Str@3,q_=Str@4;cls C A -;cls D C,B -;new d D;set d .x sa;set d .qq sa",
        # the shadow of an instance-level delegate is cached in the class (known finding)
        "res|cls A H dg=Any@1;new a A;new b A;add a .w Deleg@5;get a .w_;get b .w_;set b .w_ i1;rem a .w;set a .w_ i1",
        # a trait_added listener adds an instance trait for the name being resolved: it governs that very access
        "res|cls A S f_=Int@1;new a A;new b A;hook a .f_s Str@9;get a .f_s1;get a .f_n1;set a .f_s2 sx;set a .f_s2 i3;"
        "rem a .f_s2;get a .f_s2;get b .f_s3;get a .f_s3;hook a .z Dis@7;add a .zz Int@6;get a .zz",
        # harness regression: a class trait NAMED like a HasTraits method (`_trait`) must not break the driver, which
        # calls the API unbound (the generators no longer produce such names: resolvelib.safe_attr)
        # (implementation + driver only: traits' own `_trait_added_changed` calls the shadowed `self._trait`, a user
        # error outside the property, so neither the model nor the oracle are asked)
        "#res|cls C1 H -;cls C2 C1 -;cls C3 C2 xx=EvInt@1,ab_=Str@2;new a C3;new b H;new c C3;cls L C2 _trait=Any:i3@3;"
        "new z L;get z ._traits_cache_q;trt z ._trait 0;add z .trait Int@4;rem z .trait",
        # strict / private defaults, instance trait shadows and is removed again
        "res|cls A S -;cls B P -;new a A;new b B;get a .u;set a .u i1;del a .u;get b .u;get b ._u;set b ._u sa;"
        "get b ._u;add a .u Int@9;set a .u i3;get a .u;rem a .u;get a .u;set a .u i1",
    ]


def generate(rng, tier):
    if tier == "quick":
        yield from R.exhaustive_names(3)
        nh, nl, nm = 2600, 300, 100
    elif tier == "thorough":
        yield from R.exhaustive_names(4)
        nh, nl, nm = 90000, 9000, 1000
    else:  # intense: failing-input search after a broken proof / correspondence
        yield from R.exhaustive_names(3)
        nh, nl, nm = 20000, 2000, 200
    for _ in range(nh):
        yield R.random_history(rng)
    for _ in range(nl):
        yield R.random_history(rng, late_subclass=True)
    for _ in range(nm):
        yield R.malformed_history(rng)
    for _ in range(nl):
        yield R.mi_history(rng)
    for _ in range(nl):
        yield R.mi_same_prefix_history(rng)
    for _ in range(nl):
        yield R.deleg_history(rng)
    for _ in range(2 * nl):
        yield R.hook_history(rng)


def _hit(sig, what, **kw):
    d = {"signature": sig, "what": what}
    d.update(kw)
    return d


def name_class(name):
    if name == "":
        return "name:empty"
    if R.is_dunder(name):
        return "name:dunder"
    if name.startswith("_"):
        return "name:private"
    if name.endswith("_"):
        return "name:trailing_"
    return "name:plain"


def run_impl(case):
    kind, ops = case.lstrip("#").split("|")
    if kind.strip() != "res":
        return "bad-case", [], ["bad-case"]
    impl = R.Impl(case.lstrip("#"))
    tags_falsy = {0: "truthy-objects", 1: "truthy-objects", 2: "falsy-objects:__bool__", 3: "falsy-objects:__len__"}[impl.falsy]
    rcls = R.ref_roots()
    robj = {}
    late = {}              # real class -> names whose resolution it inherited from a base's cache
    over_value = set()     # (id(obj), name): add_trait applied while __dict__ held a value
    written = set()        # (real class, name): some instance of the class wrote the name
    outs, hits, tags = [], [], {tags_falsy}
    # names that are delegates somewhere in the case: they and their `name_` shadows are resolved by the
    # delegate rule of __prefix_trait__, which the property text does not cover (correspondence only)
    delegs = set()
    for op in ops.split(";"):
        w = op.split()
        if w and w[0] == "cls" and len(w) == 4:
            delegs |= {it.split("=")[0] for it in R.list_field(w[3]) if "=Deleg" in it}
        elif w and w[0] == "add" and len(w) == 4 and w[3].startswith("Deleg"):
            delegs.add(w[2][1:])
    # a declared / added / accessed name that is an attribute of HasTraits shadows the API traits itself calls:
    # user error outside the property (TRUSTED); such a case is executed (the driver must survive it) but not judged
    api = R.api_names()
    shadowing = False
    for op in ops.split(";"):
        w = op.split()
        if w and w[0] == "cls" and len(w) == 4:
            shadowing |= any(it.split("=")[0] in api for it in R.list_field(w[3]))
        elif w and w[0] in ("get", "set", "del", "add", "rem", "trt") and len(w) >= 3:
            shadowing |= w[2][1:] in api
    for op in [o.strip() for o in ops.split(";") if o.strip()]:
        words = op.split()
        try:
            out, info = impl.apply(words)
        except (ValueError, KeyError, IndexError):
            out, info = "bad-op", None
        outs.append(out)
        k = words[0]
        if info is None:
            tags.add(out)
            continue
        if shadowing:
            tags.add("api-shadowing(outside the property)")
            continue
        tags.add("op:" + k)
        # ------------------------------------------------------------- oracle
        if k == "cls":
            _, cn, bases, decls = words
            exact, wild = {}, {}
            for item in R.list_field(decls):
                a, spec = item.split("=")
                if a.endswith("_"):
                    wild[a[:-1]] = R.decl_of_spec(spec)
                else:
                    exact[a] = R.decl_of_spec(spec)
            rc = R.RefClass(cn, [rcls[b] for b in R.list_field(bases)], exact, wild)
            rcls[cn] = rc
            mro = rc.mro()
            declared = set()
            for c in mro:
                declared |= set(c.exact)
            late[info["cls"]] = {n for n in info["inherited"] if n not in declared}
            if late[info["cls"]]:
                tags.add("late-subclass")
            # the table of wildcards: every declared prefix and '', longest first
            plist = [p[1:] for p in out[3:].split(",")]
            want = {""}
            for c in mro:
                want |= set(c.wild)
            if sorted(plist) != sorted(want):
                hits.append(_hit("prefix-table:wrong-members", "class %s: prefix table %r, declared %r"
                                 % (cn, plist, sorted(want))))
            if any(len(plist[i]) < len(plist[i + 1]) for i in range(len(plist) - 1)):
                hits.append(_hit("prefix-table:not-longest-first", "class %s: prefix table %r is not sorted "
                                 "longest first" % (cn, plist)))
            continue
        if k == "new":
            robj[words[1]] = R.RefObj(rcls[words[2]])
            robj[words[1]].forced = set()
            continue
        o = robj[words[1]]
        name = info["name"]
        if k == "hook":
            tags.add("trait_added-listener")
            continue
        # instance traits added by trait_added listeners *during* this operation exist from that moment on:
        # by the property they govern the rest of the operation (the add_trait op sets its own trait first)
        if k == "add":
            o.itraits[name] = R.decl_of_spec(words[3])
        for (lo, lname, lspec) in impl.added_by_listener:
            ro = next(r for on, r in robj.items() if impl.objs[on] is lo)
            ro.itraits[lname] = R.decl_of_spec(lspec)
            tags.add("listener-added-instance-trait" + (":for-the-resolved-name" if lname == name and ro is o else ""))
        del impl.added_by_listener[:]
        real = out.rsplit(" g=", 1)[0]
        g = info["g"]
        tags.add(name_class(name))
        stem = name.rstrip("_")
        if stem in delegs and R.governing(o, stem)[0].kind == "delegate":
            # `v`, `v_`, `v__`, ... where `v` is a delegate *for this object*: delegate access and the
            # `name_` shadow rule of __prefix_trait__ are not in the property text (correspondence only)
            tags.add("delegate-rule(correspondence only)")
            if k == "rem":
                o.itraits.pop(name, None)
            continue
        tags.add("out:" + " ".join(real.split()[:2]) if real.startswith("err") else "out:" + real.split()[0])
        mismatch = None
        d = route = None
        if k in ("set", "del"):
            written.add((type(info["obj"]), name))
        vals_before = dict(o.vals)
        if k in ("get", "set", "del"):
            exp, d, route = R.expect(o, k, name, words[3] if k == "set" else None)
            tags.add("route:" + route)
            tags.add("kind:" + d.kind)
            if real != exp:
                mismatch = "%s %r: expected %s (governed by %s trait #%d via %s), observed %s" % (
                    k, name, exp, d.kind, d.tag, route, real)
            elif g not in ("-", str(d.tag)):
                mismatch = "%s %r: governed by trait #%s, expected #%d (%s via %s)" % (k, name, g, d.tag, d.kind, route)
            if info["post"] is not info["pre"]:       # the stored value was replaced or removed
                over_value.discard((id(info["obj"]), name))
        elif k == "add":
            d, route = o.itraits[name], "instance"
            if info["pre"] is not R.MISSING:
                over_value.add((id(info["obj"]), name))
            if real != "ok" or g != str(d.tag):
                mismatch = "add_trait %r: expected the new instance trait #%d to govern, observed %s g=%s" % (
                    name, d.tag, real, g)
        elif k == "rem":
            had = name in o.itraits or name in o.forced
            o.itraits.pop(name, None)
            o.forced.discard(name)
            o.vals.pop(name, None)
            over_value.discard((id(info["obj"]), name))
            d, route = R.governing(o, name)
            if real != "bool " + ("T" if had else "F"):
                mismatch = "remove_trait %r: expected %s, observed %s" % (name, had, real)
            elif g not in ("-", str(d.tag)):
                mismatch = "after remove_trait %r the class-level rule is trait #%d (%s via %s), observed #%s" % (
                    name, d.tag, d.kind, route, g)
        elif k == "trt":
            mode = int(words[3])
            d, route = R.governing(o, name)
            tags.add("trt:%d" % mode)
            if mode == 1:
                want = str(d.tag) if (name in o.itraits or name in o.forced) else "-"
                if real != "trait " + want:
                    mismatch = "_trait(%r, 1): expected %s, observed %s" % (name, want, real)
            elif mode == 0:
                if real not in ("trait -", "trait %d" % d.tag):
                    mismatch = "_trait(%r, 0): expected trait #%d or None, observed %s" % (name, d.tag, real)
            else:
                if real != "trait %d" % d.tag:
                    mismatch = "_trait(%r, %d): expected trait #%d (%s via %s), observed %s" % (
                        name, mode, d.tag, d.kind, route, real)
                elif mode == 2:
                    o.forced.add(name)
            if mismatch is None and g not in ("-", str(d.tag)):
                mismatch = "_trait(%r, 0) after _trait(.., %d): #%s, expected #%d" % (name, mode, g, d.tag)
        if mismatch is not None:
            multi = any(len(c.bases) > 1 for c in o.cls.mro())
            flat_ok = False
            if multi:
                # is this the behaviour F55 describes (first base's flattened tables win)?  Only then is it known
                if k in ("get", "set", "del"):
                    fexp, fd = R.expect_flat(o, vals_before, k, name, words[3] if k == "set" else None)
                    flat_ok = real == fexp and g in ("-", str(fd.tag))
                else:
                    fd = R.governing_flat(o, name)[0]
                    flat_ok = g in ("-", str(fd.tag))
            sig = classify(k, name, info, real, g, d, route, late.get(type(info["obj"]), ()), over_value,
                           (type(info["obj"]), name) in written,
                           multi, stem in delegs and stem != name, flat_ok)
            tags.add("hit:" + sig.split(":")[0])
            hits.append(_hit(sig, mismatch, op=op))
            # one defect, one hit: continue from the value the object really holds
            post = info["post"]
            if post is R.MISSING:
                o.vals.pop(name, None)
            else:
                o.vals[name] = R.show_val(post)
    return " ; ".join(outs), hits, tags


def extra_checks(ctx):
    """Direct probes of paths the case language cannot reach (found through the source tie, Props/C13
    `C13_get_trait_is_source_partial`): `get_trait(obj, name, 2)` on an object whose instance-trait dictionary
    does not exist yet, for a name resolved through a wildcard for the first time, while a *static* `trait_added`
    handler of the class adds instance traits during that resolution.  By the property an instance trait that
    `add_trait` added governs its name from then on; the C function overwrites `obj->itrait_dict` with a new
    dictionary (it tested the pointer it had read before the resolution), so those instance traits are gone."""
    from traits.api import HasTraits, Int, Str, push_exception_handler, pop_exception_handler
    hits = []
    push_exception_handler(handler=lambda *a: None, reraise_exceptions=True)
    try:
        class A(HasTraits):
            x_ = Int

            def _trait_added_changed(self, name):
                if not name.endswith("_o"):
                    HasTraits.add_trait(self, name + "_o", Str())

        probes = (("_trait(name, 2)", lambda o, n: HasTraits._trait(o, n, 2)),
                  ("on_trait_change(h, name)", lambda o, n: HasTraits.on_trait_change(o, lambda: None, n)))
        for i, (what, call) in enumerate(probes):
            for dict_first in (False, True):
                name = "xprobe%d%d" % (i, dict_first)
                a = A()
                if dict_first:
                    HasTraits._instance_traits(a)        # creates the dictionary before the resolution
                call(a, name)
                got = sorted(HasTraits._instance_traits(a))
                if name + "_o" not in got:
                    hits.append(_hit("get_trait:stale-null-itrait-dict-drops-instance-traits",
                                     "fresh object%s, %s for the undeclared wildcard name %r: the trait_added handler "
                                     "added the instance trait %r during the resolution, afterwards the instance "
                                     "traits are %r" % (" (instance-trait dictionary created first)" if dict_first
                                                        else "", what, name, name + "_o", got),
                                     case="#extra: %s, dict_first=%s" % (what, dict_first), no_shrink=True))
    finally:
        pop_exception_handler()
        R.restore_roots()
    return hits


def classify(k, name, info, real, g, d, route, late_names, over_value, was_written, multi, foreign_shadow,
             flat_ok=False):
    """Name the input class / call site of a deviation (known findings are matched on it)."""
    reading = k in ("get", "trt")
    if R.is_dunder(name) and route != "instance":
        if g == str(R.TAG_ANY_TRAIT):
            if not reading:
                return "dunder:write-governed-by-any"
            if was_written or name in late_names:
                return "dunder:cached-any-governs-read"
            return "dunder:read-governed-by-any-without-earlier-write"
        if reading and g == "-" and real.startswith("err AttributeError"):
            return "dunder:read-ignores-wildcard"
        return "dunder:other:%s" % k
    if name in late_names:
        return "late-subclass-inherits-resolved-prefix-cache"
    if foreign_shadow and route != "instance":
        # `w_` resolved as the shadow of a delegate `w` that this object does not have (any more)
        return "delegate-shadow:class-cache-outlives-instance-delegate"
    if multi and route != "instance":
        if flat_ok:
            return "multiple-inheritance:merged-base-tables-not-mro"
        # neither Python's MRO nor the first-base-wins merge of F55
        return "multiple-inheritance:neither-mro-nor-first-base-tables:%s" % ("read" if reading else "write")
    if k == "get" and info["pre"] is not R.MISSING and real == "val " + R.show_val(info["pre"]) \
            and (id(info["obj"]), name) in over_value and d.kind in ("event", "disallow", "constant"):
        return "stale-dict-value-read-after-add_trait"
    return "resolution:%s:%s" % ("read" if reading else "remove" if k == "rem" else "add" if k == "add" else "write",
                                 route)
