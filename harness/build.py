"""Scratch build of /repo's *working tree* (DESIGN §2.2 step 1, §3.3).

Copies /repo/traits to a fresh directory outside /repo and /verif, compiles
traits/ctraits.c there with the running interpreter's own flags and returns the
directory to put on sys.path.  Nothing under /repo is touched.
"""
import os
import shutil
import subprocess
import sys
import sysconfig
import tempfile

REPO = os.environ.get("VERIF_REPO", "/repo")
GUARD = "ENTHOUGHT_TRAITS_VERIF"


def scratch_root():
    base = os.environ.get("VERIF_SCRATCH") or os.environ.get("TMPDIR") or "/tmp"
    os.makedirs(base, exist_ok=True)
    return base


def build(sanitize=False, quiet=True):
    """Return (scratch_dir, log).  Raises RuntimeError when the C extension does
    not compile (the caller reports that as a broken tie, not as a violation of
    its own making)."""
    d = tempfile.mkdtemp(prefix="traits-verif-", dir=scratch_root())
    src = os.path.join(REPO, "traits")
    dst = os.path.join(d, "traits")

    def ignore(path, names):
        return [n for n in names
                if n.endswith((".so", ".pyc", ".o")) or n == "__pycache__"]
    shutil.copytree(src, dst, ignore=ignore)
    ext = sysconfig.get_config_var("EXT_SUFFIX")
    inc = sysconfig.get_paths()["include"]
    out = os.path.join(dst, "ctraits" + ext)
    cc = "gcc"
    flags = ["-shared", "-fPIC", "-O1", "-g", "-fno-strict-overflow", "-DNDEBUG",
             "-I", inc]
    if sanitize:
        cc = "clang-14" if shutil.which("clang-14") else "clang"
        flags = ["-shared", "-fPIC", "-O1", "-g", "-fno-omit-frame-pointer",
                 "-fsanitize=address,undefined", "-fno-sanitize-recover=undefined",
                 "-shared-libasan", "-I", inc]
    cmd = [cc] + flags + [os.path.join(dst, "ctraits.c"), "-o", out]
    p = subprocess.run(cmd, capture_output=True, text=True)
    if p.returncode != 0:
        shutil.rmtree(d, ignore_errors=True)
        raise RuntimeError("ctraits.c does not compile:\n" + p.stderr[-4000:])
    return d, p.stderr


def activate(scratch):
    """Make `import traits` resolve to the scratch copy in this process."""
    os.environ[GUARD] = "1"
    sys.path.insert(0, scratch)
    for m in list(sys.modules):
        if m == "traits" or m.startswith("traits."):
            del sys.modules[m]
    import traits
    import traits.ctraits
    assert os.path.realpath(traits.__file__).startswith(os.path.realpath(scratch)), traits.__file__
    assert os.path.realpath(traits.ctraits.__file__).startswith(os.path.realpath(scratch)), traits.ctraits.__file__


def cleanup(scratch):
    shutil.rmtree(scratch, ignore_errors=True)


if __name__ == "__main__":
    d, log = build()
    print(d)
