#!/venv/bin/python
"""Single entry point:  /venv/bin/python harness/vcheck.py Cxx [--tier quick|thorough] [--replay f]"""
import importlib
import os
import sys

HERE = os.path.dirname(os.path.abspath(__file__))
sys.path.insert(0, HERE)


def main():
    if len(sys.argv) < 2:
        print(__doc__)
        return 2
    prop = sys.argv[1].upper()
    import engine
    pm = importlib.import_module("props." + prop.lower())
    try:
        return engine.main(pm, sys.argv[2:])
    except KeyboardInterrupt:
        return 2


if __name__ == "__main__":
    sys.exit(main())
