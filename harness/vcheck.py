#!/venv/bin/python
"""Single entry point:  /venv/bin/python harness/vcheck.py Cxx [--tier quick|thorough] [--replay f]

The check itself runs in a child process: if the code under test takes the main process of the check down
(a crash while the scratch build is imported by a translator, say), that is reported as a violation with a
replay file instead of ending the check with a signal."""
import hashlib
import importlib
import json
import os
import subprocess
import sys

HERE = os.path.dirname(os.path.abspath(__file__))
sys.path.insert(0, HERE)


def child():
    prop = sys.argv[1].upper()
    import engine
    pm = importlib.import_module("props." + prop.lower())
    try:
        return engine.main(pm, sys.argv[2:])
    except KeyboardInterrupt:
        return 2


def main():
    if len(sys.argv) < 2:
        print(__doc__)
        return 2
    if os.environ.get("VERIF_VCHECK_CHILD") == "1":
        return child()
    env = dict(os.environ, VERIF_VCHECK_CHILD="1")
    try:
        rc = subprocess.call([sys.executable, os.path.abspath(__file__)] + sys.argv[1:], env=env)
    except KeyboardInterrupt:
        return 2
    sig = -rc if rc < 0 else (rc - 128 if rc > 128 else 0)
    if sig in (4, 6, 7, 8, 11):      # SIGILL, SIGABRT, SIGBUS, SIGFPE, SIGSEGV: crashes, not an external kill or timeout
        prop = sys.argv[1].upper()
        verif = os.path.dirname(HERE)
        rdir = os.path.join(verif, "replays")
        os.makedirs(rdir, exist_ok=True)
        rec = {"property": prop, "kind": "oracle-hit", "signature": "crash:check-process",
               "what": "the check's own process was killed by signal %d while running the code under test "
                       "(outside the crash-tolerant workers: during the scratch build import, a translator or the setup)" % sig,
               "argv": sys.argv[1:], "returncode": rc}
        path = os.path.join(rdir, "%s-%s.json" % (prop, hashlib.sha1(json.dumps(rec, sort_keys=True).encode()).hexdigest()[:10]))
        with open(path, "w") as f:
            json.dump(rec, f, indent=1)
        print("VIOLATION property=%s replay=%s" % (prop, path))
        return 1
    return rc


if __name__ == "__main__":
    sys.exit(main())
