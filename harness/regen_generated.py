#!/venv/bin/python
"""Rewrite lean/TraitsVerif/Generated/*.lean from /repo's working tree (the committed pristine copies)."""
import importlib, os, sys, glob
HERE = os.path.dirname(os.path.abspath(__file__))
sys.path.insert(0, HERE)
changed = []
for f in sorted(glob.glob(os.path.join(HERE, "translate", "*.py"))):
    n = os.path.basename(f)[:-3]
    if n == "__init__":
        continue
    mod = importlib.import_module("translate." + n)
    text = mod.emit("/repo/traits")
    path = os.path.join(HERE, "..", "lean", "TraitsVerif", "Generated", mod.TARGET)
    old = open(path).read() if os.path.exists(path) else None
    if old != text:
        open(path, "w").write(text)
        changed.append(mod.TARGET)
print("regenerated:", changed or "nothing")
